#!/bin/bash
# usage: sweep.sh <tier> <seed> [props...]  -- runs the checks one after the other, prints one summary line each
tier="$1"; seed="$2"; shift 2
props="$@"; [ -z "$props" ] && props="C01 C02 C03 C04 C05 C06 C07 C08 C09 C10 C11 C12 C13 C14 C15 C16 C17 C18 C19 C20"
mkdir -p /verif/.build/sweeps
for p in $props; do
  log=/verif/.build/sweeps/$p.$tier.$seed.log
  VERIF_SEED=$seed /verif/vcheck $p --tier $tier > $log 2>&1; rc=$?
  echo "seed=$seed $p rc=$rc $(grep -c '^VIOLATION' $log) violations-lines; $(grep -E "^$p (quick|thorough):" $log)"
done
