#!/bin/bash
# usage: store_seed.sh <SEEDID> <srcdir> <prop-to-check> [more props...]
# Copies a validated seeded change from <srcdir>/out into /verif/seeded/<SEEDID>/, applies it to /repo's working tree,
# runs the named checks (quick tier) against it, reverts /repo, and records which checks caught it.
set -u
id="$1"; src="$2"; shift 2
dst=/verif/seeded/$id
mkdir -p "$dst"
patch="$src/out/patch.diff"
[ -f "$src/out/patch.rebased.diff" ] && patch="$src/out/patch.rebased.diff"
cp "$patch" "$dst/patch.diff"
( cd "$src/out" && find . -name '*_test.go' | while read f; do mkdir -p "$dst/demo/$(dirname $f)"; cp "$f" "$dst/demo/$f"; done )
cp "$src/out/meta.json" "$dst/agent_meta.json"
[ -f "$src/validation.txt" ] && cp "$src/validation.txt" "$dst/validation.txt"
cd /repo || exit 2
if ! git diff --quiet; then echo "repo dirty"; exit 2; fi
git apply "$dst/patch.diff" || { echo "patch does not apply"; exit 2; }
: > "$dst/check_result.txt"
for p in "$@"; do
  echo "== ./vcheck $p (VERIF_SEED=${VERIF_SEED:-1}) with the seeded change applied to /repo" >> "$dst/check_result.txt"
  ( cd /verif && ./vcheck $p 2>&1 | grep -A2 "^VIOLATION\|^C[0-9][0-9] [a-z]*:" | grep -v "^--" | cut -c1-400 | tail -14 ; echo "exit=${PIPESTATUS[0]}" ) >> "$dst/check_result.txt"
done
git -C /repo checkout -- .
grep -c "^VIOLATION" "$dst/check_result.txt"
