#!/bin/bash
# usage: try_seed.sh <patch.diff> <prop> [more vcheck args]   -- applies the patch to /repo, runs the check, reverts
set -u
patch="$1"; shift
cd /repo || exit 2
if ! git diff --quiet; then echo "repo dirty"; exit 2; fi
git apply "$patch" || { echo "patch does not apply"; exit 2; }
cd /verif
./vcheck "$@" 2>&1 | grep -v "^INCONC" | cut -c1-360 | tail -25
rc=${PIPESTATUS[0]}
git -C /repo checkout -- .
echo "exit=$rc"
