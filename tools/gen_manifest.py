#!/usr/bin/env python3
"""Generates /verif/MANIFEST.json from the table below (single source of truth for the interface)."""
import json, subprocess, sys, os

VERIF = os.path.dirname(os.path.dirname(os.path.abspath(__file__)))
props = [json.loads(l) for l in open(os.path.join(VERIF, 'properties.jsonl'))]

DET = "deterministic engine: the real core under manual scheduling, driven through the real RMProxy by a shim simulator; settle barrier and full snapshot after every step; oracle = pure function of (pre snapshot, operation, SI events, post snapshot)"
CHECKS = {
 "C01": dict(design="4/C01", technique="runtime monitor: per-step pre/post snapshot oracle + predicate log + node ledger check on seeded SI histories ; every 100th case is a concurrent run on one hot node judged by a probe under the node lock (check-then-add window)",
             text="Exploration. Every scheduler-decided binding of thousands of seeded SI histories (tiny nodes, predicate denials, reservations, required nodes, gang swaps, drains, foreign allocations) is checked against the pre-step node view, and the node ledger is checked after every step. Held on the executions listed in the evidence; nothing is claimed about histories not generated."),
 "C02": dict(design="4/C02", technique="runtime monitor: per-step pre/post queue usage oracle on seeded SI histories over generated queue hierarchies",
             text="Exploration. Every scheduler-decided allocation is checked against the pre-step usage and maximum of every queue on its path (root = sum of node capacities); no non-forced step may increase a usage component that ends above its maximum; child effective maximum never looser than the parent's."),
 "C03": dict(design="4/C03", technique="runtime monitor: conservation equalities over full snapshots after every step + closing phase (everything released/removed must return to zero)",
             text="Exploration. The conservation equalities (application, leaf, parent, root vs nodes, node vs application listings, no negatives) are evaluated after every step of seeded histories that emphasise node removal during swaps, application removal, duplicate/late/lost confirmations; each case ends with a closing phase that must return every total to zero."),
 "C04": dict(design="4/C04", technique="runtime monitor: online protocol automaton over the totally ordered SI trace recorded at the shim boundary; every 100th case is a concurrent run whose trace is judged by the order-insensitive subset of the rules",
             text="Exploration. A per-key/per-application/per-node automaton driven only by the SI traffic (what a shim can know) judges every New/Released/Accepted/Rejected message of seeded histories with late, duplicate and dropped confirmations."),
 "C05": dict(design="4/C05", technique="runtime monitor: enforcement check per allocation against the tracker's own limits + usage equality after every step, with configuration reloads in the histories",
             text="Exploration. Every scheduler-decided allocation is checked against the user's and resolved group's limits on every queue of the path (resources and max applications); tracked usage is compared with the live allocations after every step; histories include reloads that add/change/drop limits."),
 "C06": dict(design="4/C06", technique="runtime monitor: swap pairing, confirmation and timeout rules over step records; timers fired through the verif hook",
             text="Exploration. Gang histories (85% gang applications, 1-2 task groups, sizes equal/smaller/larger, both styles) with timers fired at every stage, node removal, releases and late/duplicate confirmations; every swap announcement/confirmation and every timeout is judged."),
 "C09": dict(design="4/C09", technique="runtime monitor: four-view reservation consistency (application, node, queue, partition counter) after every step",
             text="Exploration. Full clusters of tiny nodes, asks back-dated past the reservation delay, required-node asks, drains, removals; the application/node/queue/partition views of reservations are compared after every step."),
 "C10": dict(design="4/C10", technique="runtime monitor: transition table over the application update stream and state log + bounded-progress checks after the causing step / timer hook",
             text="Exploration. Every state reported in the update stream and state log is checked against the documented life cycle; Completed applications must have no work; last-work-removed => Completing; completing timer => Completed and out of the queue; terminated applications reject asks."),
 "C11": dict(design="4/C11", technique="runtime monitor: max-applications gate check per first allocation against pre-step queue DAOs + quiescent counter invariants",
             text="Exploration. Histories with max-applications on most queues (config, template, tag), gang applications, restarts from Completing and removals; the gate is re-evaluated on the pre-step snapshot for every first allocation, counters are checked after every step."),
}

PURE_NOTE = "Trusted: the small independent reference model of this check (written from the documentation comments, three-valued where they are silent), Go runtime. The oracle judges only the inputs it generated."
CHECKS.update({
 "C18": dict(engine="pure", design="4/C18", note=PURE_NOTE, technique="reference-model monitor: real resources functions / quantity parsers vs an arbitrary-precision (math/big) reference on seeded operands incl. int64 extremes, nil and key-set mismatches",
             text="Exploration. Millions of evaluations of Add/Sub/AddTo/SubFrom/Multiply/MultiplyBy/OnlyExisting variants/EliminateNegative, the fit and comparison predicates, component-wise min/max, equality variants and ParseQuantity/ParseVCore are compared with an exact reference; arguments are compared before/after every call; panics are violations."),
 "C19": dict(engine="pure", design="4/C19", note=PURE_NOTE, technique="runtime monitor: real sortQueues/sortApplications (via verif hook) called repeatedly on the same world (Go map order permutes candidates) and judged pairwise against the policy's keys; ask list and node iterator checked against their keys after random scripts",
             text="Exploration. Queue, application, ask and node worlds are built with the real constructors from seeded keys with many ties and near-ties; every pair the policy distinguishes must appear in that order in every call; node iteration must visit every registered node once, skip exactly the reserved ones in the unreserved view and be ordered by the score of the current utilisation."),
 "C20": dict(engine="pure", design="4/C20", note=PURE_NOTE, technique="reference-model monitor: real ring buffer / event store / event streaming vs a list-based model by pointer identity; exhaustive enumeration of the small sub-space; concurrent stream runs with subscribers created and removed while events are published (thorough: under -race)",
             text="Exploration plus an exhaustively enumerated sub-space (reported in the evidence). Seeded add/resize/query scripts on the real ring buffer are compared with a list model (ids, ranges, bounds, recent events), event-store batches with the size in force, and subscribers of concurrent stream runs must receive a gap-free, repeat-free run of ids that ends with the last event."),
})

CHECKS["C15"] = dict(engine="pure", design="4/C15", note=PURE_NOTE, technique="input monitor: YAML documents generated from a grammar over the configuration schema; real validator run 6 times per document (determinism), accepted documents judged by a three-valued hierarchy reference and loaded into a new and into a running ClusterContext",
    text="Exploration of inputs. Tens of thousands of generated configuration documents (valid, invalid and near the accept/reject boundary); the validator must not panic and must be deterministic; an accepted document must satisfy the documented hierarchy rules, load into a new scheduler and into a running one without error or panic, and leave the configured placement rules active.")
CHECKS["C16"] = dict(engine="det", design="4/C16", technique="runtime monitor: full-snapshot before/after relation for every reload in seeded histories (rejected reload = nothing changes; accepted reload = running state preserved, new settings applied, dropped queues draining), cleaner invoked through the hook",
    text="Exploration. Reload-heavy histories: new configurations from the same grammar replace the current one at random points of running histories; every reload and every later step is judged (state preserved, settings applied, draining semantics, queues removed only when empty).")
CHECKS["C17"] = dict(engine="det", design="4/C17", technique="runtime monitor: every application submission judged against the pre-step world by a reference evaluator of the rule chain (three-valued) plus necessary conditions (leaf, not draining, ACL of queue or ancestor, create flag, valid name parts, parent not a leaf, child template, recovery queue only when forced, rejection has a reason and leaves no trace)",
    text="Exploration of inputs x configurations. Generated rule chains, ACL layouts and child templates on the real core, with a reload that turns queues draining; thousands of submissions (users, groups, tags, requested names incl. invalid and the recovery name, forced or not) are judged one by one.")
CHECKS["C07"] = dict(engine="det", design="4/C07", technique="runtime monitor: every PREEMPTED_BY_SCHEDULER announcement judged against the pre-step world (victim bound / not released / not already preempted / no required node / announced once; asker identified by the triggered-preemption flag that flipped; queue, fence, policy, shared type and priority rules; required-node and quota-change variants)",
    text="Exploration. Constructed preemption worlds (nodes filled with RM-bound allocations of mixed queue, priority and required-node flags; queue trees with preemption and priority policies, offsets, fences and guarantees; back-dated askers) followed by random histories; every victim announced is re-evaluated independently on the snapshot taken before the step.")
CHECKS["C08"] = dict(engine="det", design="4/C08", technique="runtime monitor: necessary conditions on every preemption batch (asker path has a guarantee it has not reached, victim side above its guarantee, reserved node + victims cover the ask, flagged set = announced set), quota-change batches (enabled, managed queue over its maximum with elapsed delay, claimed amount <= excess, victim queue above guarantee) and preempting-resource bookkeeping after every step",
    text="Exploration. Same worlds as C07 with quota preemption enabled and reloads that lower maxima; the rules are order-independent necessary conditions derived from the statement, so a legitimate heuristic change cannot raise an alarm while protected victims, kills without effect, excess claims and bookkeeping slips are reported.")
CHECKS["C12"] = dict(engine="det", design="4/C12", technique="crash-point monitor: two cores per case; the first is stopped at a protocol-quiescent point of a seeded history, the second is fed the shim's view only in a seeded order; oracle = no rejection + equality of per-node/queue/application/user totals + capacity/quota/accounting oracles on 30 further operations",
    text="Exploration of crash points x replay orders. Every case stops the real core at a quiescent point of a seeded history (gang applications, foreign allocations, RM-bound allocations, reloads that lower quotas), starts a new core and replays nodes, force-created applications, bound allocations and outstanding asks in a seeded order; any rejection, any difference in totals and any violation in the scheduling that follows is reported.")
CHECKS["C13"] = dict(engine="det", design="4/C13", technique="hostile-input monitor: generated SI messages injected into reachable states in child processes; every message logged before sending; oracle = process alive + barrier returns + matching rejection + ledger snapshot unchanged + conservation",
    note="Trusted: the harness; the generator's knowledge of which items are invalid by the protocol's own rules. No nil list elements / nil map values (excluded by the property).",
    text="Exploration of inputs x states. 24 classes of hostile or malformed SI messages are injected after seeded legal prefixes; a dead worker is a violation whose witness is the last logged message, a barrier that does not return within 30 s is a hang, invalid items must be answered with the matching rejection and leave the ledger snapshot identical, every message must leave the accounting consistent.")
CHECKS["C14"] = dict(engine="conc", design="4/C14", technique="Go race detector (-race) + go-deadlock lock-order/timeout detection + seeded lock-acquire yields over a concurrent workload (clients, confirmer, reloader, node updater, REST readers; gang applications in half of the runs); bounded-progress (quiescence + double goroutine dump); quiescent-state oracles on the final snapshot",
    note="Trusted: Go race detector, go-deadlock, the harness. Only interleavings that were executed are judged. Final-state violations in runs with node removal / application removal / reload / RM-bound allocations match known findings (races in the core, see known_findings.json); the calm class (asks, releases, capacity changes, drains, foreign allocations, confirmations, REST readers) has no known finding except the reservation three-view race.",
    text="Exploration of schedules. Each case is a 5-7 s run of the real core with its scheduling loop, handlers, quota preemption loop, 50 ms health checker and timers under -race and go-deadlock, hammered by 3-6 clients, a confirmer, a reloader, a node updater and 3 REST readers, with seeded yields at every lock acquisition and GOMAXPROCS 2-16. Reports: data races (de-duplicated by innermost core frame pair), lock-order inversions / potential deadlocks, blocked goroutines after the input stops, final-state invariant violations.")

for k in CHECKS:
    CHECKS[k].setdefault("engine", "det")

NA_REASON_PENDING = "check under construction in this round: monitor not yet built, so nothing is claimed"

def main():
    commits = subprocess.run(["git", "-C", "/repo", "log", "--format=%H %s"], capture_output=True, text=True).stdout.splitlines()
    hook_commits = [c.split()[0] for c in commits if " verif hooks" in c]
    checks = []
    na = []
    for p in props:
        pid = p['id']
        c = CHECKS.get(pid)
        if not c:
            na.append({"property_id": pid, "reason": NA_REASON_PENDING})
            continue
        checks.append({
            "property_id": pid,
            "quick_cmd": f"./vcheck {pid} --tier quick",
            "thorough_cmd": f"./vcheck {pid} --tier thorough",
            "evidence_file": f"/verif/evidence/{pid}.json",
            "replay_cmd_template": f"./vcheck {pid} --replay {{path}}",
            "engine": c["engine"],
            "level_claimed": {"category": "exploration", "text": c["text"], "design_ref": "DESIGN.md section " + c["design"]},
            "level_note": c.get("note", "Trusted: the harness (shim simulator, snapshot code, oracles), Go runtime; the oracle judges only executions it produced. Legal-history assumption: unique allocation keys, node/application before their allocations. Known findings listed in known_findings.json are reported as KNOWN-FINDING lines."),
            "technique": c["technique"],
        })
    m = {
        "version": 1,
        "setup_cmd": "./vcheck --setup",
        "hooks": {"guard": "verif", "enable": "go build -tags verif (external harness module /verif/harness, replace github.com/apache/yunikorn-core => /repo)",
                  "baseline_off_cmd": "cd /repo && go test -mod=mod -vet=off -count=1 -timeout 25m -json ./...",
                  "source_commits": hook_commits, "add_only": True},
        "engines": [
            {"name": "det", "path": "harness/det", "serves_properties": sorted(k for k, v in CHECKS.items() if v["engine"] == "det"), "kind_free_text": DET},
        ],
        "checks": checks,
        "notes": "All checks: ./vcheck Cxx --tier quick|thorough; honour VERIF_SEED; rebuild the harness against /repo's working tree with -tags verif; exit 1 + VIOLATION line only for violations not listed in known_findings.json.",
        "not_applicable": na,
    }
    m["engines"].append({"name": "pure", "path": "harness/pure", "serves_properties": sorted(k for k, v in CHECKS.items() if v["engine"] == "pure"), "kind_free_text": "reference-model monitors: the real functions / data structures of the pure packages are executed on seeded inputs next to a small independent model; the deciding step is the comparison of what the real code did with what it may do"})
    m["engines"].append({"name": "conc", "path": "harness/conc", "serves_properties": sorted(k for k, v in CHECKS.items() if v["engine"] == "conc"), "kind_free_text": "concurrent engine: real goroutines of the core plus client/confirmer/reloader/node-updater/REST goroutines; -race binary, DEADLOCK_DETECTION_ENABLED=true, seeded yield hook in pkg/locking"})
    extra = globals().get("ENGINES_EXTRA")
    if extra:
        m["engines"] += extra
    json.dump(m, open(os.path.join(VERIF, "MANIFEST.json"), "w"), indent=1)
    print("checks:", len(checks), "not_applicable:", len(na))

if __name__ == "__main__":
    main()
