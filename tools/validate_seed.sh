#!/bin/bash
# usage: validate_seed.sh <ID> : confirm in the scratch worktree /tmp/seed/<ID>/wt that the seeded change compiles,
# the demo fails with it and passes without it, and the existing suite of the repository still passes with it.
# Writes /tmp/seed/<ID>/validation.txt
id="$1"; wt=/tmp/seed/$id/wt; out=/tmp/seed/$id/out; log=/tmp/seed/$id/validation.txt
export GOFLAGS=-mod=mod GOPROXY=off
cd "$wt" || exit 2
{
echo "== seed $id $(date -u +%FT%TZ)"
meta="$out/meta.json"
demo_path=$(python3 -c "import json;print(json.load(open('$meta')).get('demo_path',''))")
demo_cmd=$(python3 -c "import json;print(json.load(open('$meta')).get('demo_cmd',''))")
echo "demo_path=$demo_path"; echo "demo_cmd=$demo_cmd"
git checkout -q -- . ; git clean -fdq
# place demo
for f in $(cd "$out" && find . -name '*_test.go'); do
  if [ -n "$demo_path" ] && [ "$(basename $f)" = "$(basename $demo_path)" ]; then mkdir -p "$(dirname $demo_path)"; cp "$out/$f" "$demo_path"; fi
done
[ -f "$demo_path" ] || { for f in $(cd "$out" && find . -name '*_test.go'); do mkdir -p "$(dirname $f)"; cp "$out/$f" "$f"; done; }
pkg=./$(dirname "$demo_path")
run=$(echo "$demo_cmd" | grep -o '\-run [^ ]*' | head -1 | tr -d "'\"")
echo "-- without patch (expect PASS)"
go test -vet=off -count=1 $run $pkg 2>&1 | tail -3
r0=${PIPESTATUS[0]}
git apply "$out/patch.diff" || { echo "PATCH DOES NOT APPLY"; exit 1; }
echo "-- with patch (expect FAIL)"
go test -vet=off -count=1 $run $pkg 2>&1 | tail -6
r1=${PIPESTATUS[0]}
echo "-- suite with patch, demo removed (expect ok everywhere except always-fail tests)"
rm -f "$demo_path"
go build ./... && go test -vet=off -count=1 -timeout 25m ./pkg/common/... ./pkg/events/... ./pkg/scheduler/... ./pkg/rmproxy/... ./pkg/plugins/... ./pkg/metrics/... ./pkg/locking/... ./pkg/log/... 2>&1 | grep -v "no test files" | tail -25
r2=${PIPESTATUS[1]}
echo "RESULT without=$r0 with=$r1 suite=$r2"
} > "$log" 2>&1
tail -1 "$log"
