#!/bin/bash
# Re-runs the checks recorded for every stored seeded change against the current /repo working tree + patch.
# usage: rerun_seeds.sh [name-glob]
cd /verif
for d in seeded/${1:-*}/; do
  name=$(basename $d)
  checks=$(grep -o '^== ./vcheck C[0-9]*' $d/check_result.txt | awk '{print $3}' | tr '\n' ' ')
  [ -z "$checks" ] && continue
  if ! git -C /repo diff --quiet; then echo "repo dirty"; exit 2; fi
  git -C /repo apply /verif/$d/patch.diff || { echo "$name: patch does not apply"; continue; }
  : > $d/check_result.txt
  for p in $checks; do
    echo "== ./vcheck $p (VERIF_SEED=${VERIF_SEED:-1}) with the seeded change applied to /repo" >> $d/check_result.txt
    ( ./vcheck $p 2>&1 | grep -v "^INCONC\|^KNOWN" | cut -c1-400 | tail -14 ; echo "exit=${PIPESTATUS[0]}" ) >> $d/check_result.txt
  done
  git -C /repo checkout -- .
  echo "$name: $(grep -c 'exit=1' $d/check_result.txt) of $(echo $checks | wc -w) checks caught it"
done
echo RERUN DONE
