package pure

import (
	"crypto/sha256"
	"encoding/hex"
	"fmt"
	"sort"
	"strconv"
	"strings"
	"time"

	"github.com/apache/yunikorn-core/pkg/common/configs"
	"github.com/apache/yunikorn-core/pkg/common/resources"
	"github.com/apache/yunikorn-core/pkg/common/security"
	"github.com/apache/yunikorn-core/pkg/scheduler/objects"
	siCommon "github.com/apache/yunikorn-scheduler-interface/lib/go/common"
	"github.com/apache/yunikorn-scheduler-interface/lib/go/si"

	"verifharness/det"
	"verifharness/res"
	"verifharness/shim"
)

type c19 struct {
	r   *det.Rng
	v   []viol
	obs map[string]int64
	h   interface{ Write([]byte) (int, error) }
	log []string
}

func (c *c19) bad(rule, class, f string, a ...interface{}) {
	if len(c.v) < 30 {
		c.v = append(c.v, viol{rule, class, fmt.Sprintf(f, a...)})
	}
}

func smallRes(r *det.Rng, hi int, density int) map[string]string {
	out := map[string]string{}
	if r.Chance(density) {
		out["memory"] = strconv.Itoa(r.Range(0, hi))
	}
	if r.Chance(density) {
		out["vcore"] = strconv.Itoa(r.Range(0, hi))
	}
	if len(out) == 0 {
		return nil
	}
	return out
}

var appSeq int

func newApp(id, queue string, q *objects.Queue) *objects.Application {
	app := objects.NewApplication(&si.AddApplicationRequest{ApplicationID: id, QueueName: queue, PartitionName: "default"},
		security.UserGroup{User: "u1", Groups: []string{"g1"}}, nil, "rm")
	app.SetQueue(q)
	q.AddApplication(app)
	return app
}

func newAsk(app, key string, r res.R, prio int32, createUnix int64) *objects.Allocation {
	return objects.NewAllocationFromSI(&si.Allocation{AllocationKey: key, ApplicationID: app, ResourcePerAlloc: r.Proto(), Priority: prio,
		AllocationTags: map[string]string{siCommon.CreationTime: strconv.FormatInt(createUnix, 10)}})
}

// queueWorld: one parent with n leaf children with random keys; returns the parent and a description.
func (c *c19) queueWorld() {
	r := c.r
	sortPolicy := []string{"fair", "fair", "fifo"}[r.Intn(3)]
	prioSort := []string{"enabled", "disabled", ""}[r.Intn(3)]
	props := map[string]string{"application.sort.policy": sortPolicy}
	if prioSort != "" {
		props["application.sort.priority"] = prioSort
	}
	mapping := objects.NewAppQueueMapping()
	root, err := objects.NewConfiguredQueue(configs.QueueConfig{Name: "root", Parent: true, SubmitACL: "*"}, nil, false, mapping)
	if err != nil {
		return
	}
	root.SetMaxResource(resources.NewResourceFromMap(map[string]resources.Quantity{"memory": 1000, "vcore": 1000}))
	pconf := configs.QueueConfig{Name: "p", Parent: true, Properties: props}
	if r.Chance(500) {
		pconf.Resources.Max = map[string]string{"memory": "100", "vcore": "100"}
	}
	parent, err := objects.NewConfiguredQueue(pconf, root, false, mapping)
	if err != nil {
		return
	}
	n := r.Range(2, 9)
	var desc []string
	desc = append(desc, fmt.Sprintf("parent sort=%s prio=%s max=%v", sortPolicy, prioSort, pconf.Resources.Max))
	// a small pool of key values so that ties and near ties are frequent
	for i := 0; i < n; i++ {
		qc := configs.QueueConfig{Name: fmt.Sprintf("c%d", i)}
		qc.Resources.Guaranteed = smallRes(r, 8, 400)
		qc.Resources.Max = smallRes(r, 20, 400)
		if qc.Resources.Max != nil && qc.Resources.Guaranteed != nil {
			for k, g := range qc.Resources.Guaranteed {
				if m, ok := qc.Resources.Max[k]; ok {
					gi, _ := strconv.Atoi(g)
					mi, _ := strconv.Atoi(m)
					if gi > mi {
						qc.Resources.Guaranteed[k] = m
					}
				}
			}
		}
		if r.Chance(250) {
			qc.Properties = map[string]string{"priority.offset": strconv.Itoa(r.Range(-2, 2))}
		}
		q, err := objects.NewConfiguredQueue(qc, parent, false, mapping)
		if err != nil {
			continue
		}
		alloc := res.R{}
		if r.Chance(800) {
			alloc["memory"] = int64(r.Range(0, 6))
		}
		if r.Chance(600) {
			alloc["vcore"] = int64(r.Range(0, 6))
		}
		q.IncAllocatedResource(alloc.Core(), false)
		appSeq++
		app := newApp(fmt.Sprintf("app-%d", appSeq), q.GetQueuePath(), q)
		pend := res.R{}
		switch r.Intn(4) {
		case 0:
			pend["memory"] = int64(r.Range(1, 3))
		case 1:
			pend["vcore"] = int64(r.Range(1, 3))
		default:
			pend["memory"] = int64(r.Range(1, 3))
			pend["vcore"] = int64(r.Range(1, 3))
		}
		prio := int32(r.Range(0, 2))
		_ = app.AddAllocationAsk(newAsk(app.ApplicationID, app.ApplicationID+"-k", pend, prio, 1700000000))
		desc = append(desc, fmt.Sprintf("%s guaranteed=%v max=%v allocated=%s pending=%s askPrio=%d offset=%v", qc.Name, qc.Resources.Guaranteed, qc.Resources.Max, alloc, pend, prio, qc.Properties))
	}
	c.h.Write([]byte(strings.Join(desc, ";")))
	children := parent.GetCopyOfChildren()
	considerPrio := parent.IsPrioritySortEnabled()
	type keys struct {
		prio    int32
		alloc   *resources.Resource
		guar    *resources.Resource
		fairMax *resources.Resource
		pending *resources.Resource
	}
	ks := map[string]keys{}
	for name, q := range children {
		ks[name] = keys{q.GetCurrentPriority(), q.GetAllocatedResource(), q.GetGuaranteedResource(), q.GetFairMaxResource(), q.GetPendingResource()}
	}
	// before(x,y): the policy says x strictly before y
	before := func(x, y string) bool {
		a, b := ks[x], ks[y]
		pendGreater := func() bool {
			return resources.StrictlyGreaterThan(resources.Sub(a.pending, b.pending), resources.Zero)
		}
		if sortPolicy == "fair" {
			comp := resources.CompUsageRatioSeparately(a.alloc, a.guar, a.fairMax, b.alloc, b.guar, b.fairMax)
			if considerPrio {
				if a.prio != b.prio {
					return a.prio > b.prio
				}
				if comp != 0 {
					return comp < 0
				}
				return pendGreater()
			}
			if comp != 0 {
				return comp < 0
			}
			if a.prio != b.prio {
				return a.prio > b.prio
			}
			return pendGreater()
		}
		if considerPrio {
			return a.prio > b.prio
		}
		return false
	}
	names := make([]string, 0, len(children))
	for k := range children {
		names = append(names, k)
	}
	sort.Strings(names)
	// is "before" a strict weak order on this set? (incomparability must be transitive)
	weak := true
	for _, x := range names {
		for _, y := range names {
			for _, z := range names {
				if x == y || y == z || x == z {
					continue
				}
				if before(x, y) && before(y, z) && !before(x, z) {
					weak = false
				}
				if !before(x, y) && !before(y, x) && !before(y, z) && !before(z, y) && (before(x, z) || before(z, x)) {
					weak = false
				}
			}
		}
	}
	c.obs["c19.queue_worlds"]++
	if !weak {
		c.obs["c19.queue_worlds_keys_not_weak_order"]++
	}
	distinct, ties := 0, 0
	for i, x := range names {
		for _, y := range names[i+1:] {
			if before(x, y) || before(y, x) {
				distinct++
			} else {
				ties++
			}
		}
	}
	c.obs["c19.queue_pairs_distinguished"] += int64(distinct)
	c.obs["c19.queue_pairs_tied"] += int64(ties)
	orders := map[string]bool{}
	for call := 0; call < 16; call++ {
		sorted := objects.VerifSortQueues(parent)
		pos := map[string]int{}
		var order []string
		for i, q := range sorted {
			pos[q.Name] = i
			order = append(order, q.Name)
		}
		orders[strings.Join(order, ",")] = true
		c.obs["c19.queue_sort_calls"]++
		if len(sorted) != len(names) {
			c.bad("queue-candidates-lost", "any", "sortQueues returned %d of %d children with pending resources: %v; world: %s", len(sorted), len(names), order, strings.Join(desc, "; "))
			break
		}
		violated := false
		for _, x := range names {
			for _, y := range names {
				if x != y && before(x, y) && pos[x] > pos[y] {
					cls := "fair"
					if sortPolicy != "fair" {
						cls = "fifo"
					}
					if considerPrio {
						cls += "+priority"
					}
					if !weak {
						cls += "+partial-tiebreak"
					}
					c.bad("queue-order-contradicts-keys", cls, "sortQueues put %s before %s although the policy (%s, priority %v) orders %s first; order %v; world: %s", y, x, sortPolicy, considerPrio, x, order, strings.Join(desc, "; "))
					violated = true
					break
				}
			}
			if violated {
				break
			}
		}
		if violated {
			break
		}
	}
	c.obs["c19.queue_distinct_orders_seen"] += int64(len(orders))
}

// appWorld: one leaf with n applications.
func (c *c19) appWorld() {
	r := c.r
	sortPolicy := []string{"fair", "fifo", "fifo"}[r.Intn(3)]
	prioSort := []string{"enabled", "disabled", ""}[r.Intn(3)]
	props := map[string]string{"application.sort.policy": sortPolicy}
	if prioSort != "" {
		props["application.sort.priority"] = prioSort
	}
	mapping := objects.NewAppQueueMapping()
	root, err := objects.NewConfiguredQueue(configs.QueueConfig{Name: "root", Parent: true, SubmitACL: "*"}, nil, false, mapping)
	if err != nil {
		return
	}
	root.SetMaxResource(resources.NewResourceFromMap(map[string]resources.Quantity{"memory": 1000, "vcore": 1000}))
	lc := configs.QueueConfig{Name: "leaf", Properties: props}
	if r.Chance(600) {
		lc.Resources.Guaranteed = map[string]string{"memory": strconv.Itoa(r.Range(1, 20)), "vcore": strconv.Itoa(r.Range(1, 20))}
	}
	leaf, err := objects.NewConfiguredQueue(lc, root, false, mapping)
	if err != nil {
		return
	}
	n := r.Range(2, 9)
	var desc []string
	desc = append(desc, fmt.Sprintf("leaf sort=%s prio=%s guaranteed=%v", sortPolicy, prioSort, lc.Resources.Guaranteed))
	type akeys struct {
		prio  int32
		sub   time.Time
		alloc *resources.Resource
	}
	ks := map[string]akeys{}
	var names []string
	for i := 0; i < n; i++ {
		appSeq++
		id := fmt.Sprintf("app-%d", appSeq)
		app := newApp(id, leaf.GetQueuePath(), leaf)
		create := int64(1700000000 + r.Intn(4))
		prio := int32(r.Range(0, 2))
		_ = app.AddAllocationAsk(newAsk(id, id+"-k", res.R{"memory": int64(r.Range(1, 3))}, prio, create))
		if r.Chance(700) {
			al := objects.NewAllocationFromSI(&si.Allocation{AllocationKey: id + "-a", ApplicationID: id, NodeID: "n1", ResourcePerAlloc: res.R{"memory": int64(r.Range(0, 4)), "vcore": int64(r.Range(1, 4))}.Proto(),
				AllocationTags: map[string]string{siCommon.CreationTime: strconv.FormatInt(create, 10)}})
			app.RecoverAllocationAsk(al)
			app.AddAllocation(al)
		}
		ks[id] = akeys{app.GetAskMaxPriority(), app.GetSubmissionTime(), app.GetAllocatedResource()}
		names = append(names, id)
		desc = append(desc, fmt.Sprintf("%s prio=%d submit=%d allocated=%s", id, prio, create, res.From(app.GetAllocatedResource())))
	}
	c.h.Write([]byte(strings.Join(desc, ";")))
	considerPrio := leaf.IsPrioritySortEnabled()
	global := leaf.GetGuaranteedResource()
	before := func(x, y string) bool {
		a, b := ks[x], ks[y]
		if sortPolicy == "fair" {
			comp := resources.CompUsageRatio(a.alloc, b.alloc, global)
			if considerPrio {
				if a.prio != b.prio {
					return a.prio > b.prio
				}
				return comp < 0
			}
			if comp != 0 {
				return comp < 0
			}
			return a.prio > b.prio
		}
		if considerPrio {
			if a.prio != b.prio {
				return a.prio > b.prio
			}
			return a.sub.Before(b.sub)
		}
		if !a.sub.Equal(b.sub) {
			return a.sub.Before(b.sub)
		}
		return a.prio > b.prio
	}
	c.obs["c19.app_worlds"]++
	for call := 0; call < 12; call++ {
		sorted := objects.VerifSortApplications(leaf, false)
		c.obs["c19.app_sort_calls"]++
		pos := map[string]int{}
		var order []string
		for i, a := range sorted {
			pos[a.ApplicationID] = i
			order = append(order, a.ApplicationID)
		}
		if len(sorted) != len(names) {
			c.bad("app-candidates-lost", "any", "sortApplications returned %d of %d applications with pending asks; world: %s", len(sorted), len(names), strings.Join(desc, "; "))
			return
		}
		for _, x := range names {
			for _, y := range names {
				if x != y && before(x, y) && pos[x] > pos[y] {
					c.bad("app-order-contradicts-keys", sortPolicy, "sortApplications put %s before %s although the policy (%s, priority %v) orders %s first; order %v; world: %s", y, x, sortPolicy, considerPrio, x, order, strings.Join(desc, "; "))
					return
				}
			}
		}
	}
}

// askWorld: the sorted requests of one application after random insert / remove / allocate sequences.
func (c *c19) askWorld() {
	r := c.r
	mapping := objects.NewAppQueueMapping()
	root, err := objects.NewConfiguredQueue(configs.QueueConfig{Name: "root", Parent: true, SubmitACL: "*"}, nil, false, mapping)
	if err != nil {
		return
	}
	leaf, err := objects.NewConfiguredQueue(configs.QueueConfig{Name: "leaf"}, root, false, mapping)
	if err != nil {
		return
	}
	appSeq++
	id := fmt.Sprintf("app-%d", appSeq)
	app := newApp(id, leaf.GetQueuePath(), leaf)
	type ak struct {
		prio   int32
		create int64
	}
	live := map[string]ak{}
	var script []string
	n := 0
	for s := 0; s < r.Range(4, 40); s++ {
		switch r.Weighted([]int{60, 25, 15}) {
		case 0:
			n++
			key := fmt.Sprintf("%s-k%d", id, n)
			k := ak{int32(r.Range(0, 3)), int64(1700000000 + r.Intn(5))}
			if app.AddAllocationAsk(newAsk(id, key, res.R{"memory": 1}, k.prio, k.create)) == nil {
				live[key] = k
			}
			script = append(script, fmt.Sprintf("add %s prio=%d create=%d", key, k.prio, k.create))
		case 1:
			for key := range live {
				app.RemoveAllocationAsk(key)
				delete(live, key)
				script = append(script, "remove "+key)
				break
			}
		default:
			for key := range live {
				if _, err := app.AllocateAsk(key); err == nil {
					script = append(script, "allocate "+key)
				}
				break
			}
		}
		got := app.VerifSortedRequestKeys()
		c.obs["c19.ask_checks"]++
		if len(got) != len(live) {
			c.bad("asks-not-exact", "count", "sorted requests hold %d asks, %d asks were added and not removed; script %v; sorted %v", len(got), len(live), script, got)
			return
		}
		seen := map[string]bool{}
		for i, key := range got {
			k, ok := live[key]
			if !ok || seen[key] {
				c.bad("asks-not-exact", "membership", "sorted requests contain %s which is not an outstanding ask (or twice); script %v", key, script)
				return
			}
			seen[key] = true
			if i > 0 {
				p := live[got[i-1]]
				if p.prio < k.prio || (p.prio == k.prio && p.create > k.create) {
					c.bad("asks-order", "plain", "sorted requests have %s (prio %d create %d) before %s (prio %d create %d); script %v", got[i-1], p.prio, p.create, key, k.prio, k.create, script)
					return
				}
			}
		}
	}
	c.h.Write([]byte(strings.Join(script, ";")))
}

// nodeWorld: a node collection under random add / remove / allocate / release / capacity / policy / reserve changes.
func (c *c19) nodeWorld() {
	r := c.r
	nc := objects.NewNodeCollection("default")
	mapping := objects.NewAppQueueMapping()
	root, _ := objects.NewConfiguredQueue(configs.QueueConfig{Name: "root", Parent: true, SubmitACL: "*"}, nil, false, mapping)
	leaf, _ := objects.NewConfiguredQueue(configs.QueueConfig{Name: "leaf"}, root, false, mapping)
	appSeq++
	app := newApp(fmt.Sprintf("app-%d", appSeq), "root.leaf", leaf)
	nodes := map[string]*objects.Node{}
	reserved := map[string]string{} // node -> ask key
	allocs := map[string][]string{}
	var script []string
	n, k := 0, 0
	policy := objects.NewNodeSortingPolicy("fair", nil)
	for s := 0; s < r.Range(5, 50); s++ {
		pick := func() string {
			ids := make([]string, 0, len(nodes))
			for id := range nodes {
				ids = append(ids, id)
			}
			sort.Strings(ids)
			if len(ids) == 0 {
				return ""
			}
			return ids[r.Intn(len(ids))]
		}
		switch r.Weighted([]int{25, 8, 30, 15, 10, 6, 8, 4}) {
		case 0:
			n++
			id := fmt.Sprintf("n%02d", n)
			node := objects.NewNode(&si.NodeInfo{NodeID: id, Attributes: map[string]string{}, SchedulableResource: res.R{"memory": int64(r.Range(4, 12)), "vcore": int64(r.Range(4, 12))}.Proto()})
			if nc.AddNode(node) == nil {
				nodes[id] = node
			}
			script = append(script, "add "+id)
		case 1:
			if id := pick(); id != "" {
				nc.RemoveNode(id)
				delete(nodes, id)
				delete(reserved, id)
				delete(allocs, id)
				script = append(script, "remove "+id)
			}
		case 2:
			if id := pick(); id != "" {
				k++
				key := fmt.Sprintf("a%d", k)
				al := objects.NewAllocationFromSI(&si.Allocation{AllocationKey: key, ApplicationID: app.ApplicationID, NodeID: id, ResourcePerAlloc: res.R{"memory": int64(r.Range(0, 3)), "vcore": int64(r.Range(1, 3))}.Proto()})
				nodes[id].AddAllocation(al)
				allocs[id] = append(allocs[id], key)
				script = append(script, "alloc "+id)
			}
		case 3:
			if id := pick(); id != "" && len(allocs[id]) > 0 {
				key := allocs[id][0]
				allocs[id] = allocs[id][1:]
				nodes[id].RemoveAllocation(key)
				script = append(script, "release "+id)
			}
		case 4:
			if id := pick(); id != "" {
				nodes[id].SetCapacity(res.R{"memory": int64(r.Range(2, 14)), "vcore": int64(r.Range(2, 14))}.Core())
				script = append(script, "capacity "+id)
			}
		case 5:
			pt := []string{"fair", "binpacking"}[r.Intn(2)]
			var w map[string]float64
			if r.Chance(500) {
				w = map[string]float64{"memory": float64(r.Range(0, 3)), "vcore": float64(r.Range(1, 3))}
			}
			policy = objects.NewNodeSortingPolicy(pt, w)
			nc.SetNodeSortingPolicy(policy)
			script = append(script, fmt.Sprintf("policy %s %v", pt, w))
		case 6:
			if id := pick(); id != "" && reserved[id] == "" {
				k++
				key := fmt.Sprintf("r%d", k)
				ask := newAsk(app.ApplicationID, key, res.R{"memory": 1}, 0, 1700000000)
				if app.AddAllocationAsk(ask) == nil && app.Reserve(nodes[id], ask) == nil {
					reserved[id] = key
					script = append(script, "reserve "+id)
				}
			}
		default:
			if id := pick(); id != "" && reserved[id] != "" {
				if ask := app.GetAllocationAsk(reserved[id]); ask != nil {
					app.UnReserve(nodes[id], ask)
				}
				delete(reserved, id)
				script = append(script, "unreserve "+id)
			}
		}
		// full iterator: every registered node exactly once, ascending in the score of the current utilisation
		for _, full := range []bool{true, false} {
			var it objects.NodeIterator
			if full {
				it = nc.GetFullNodeIterator()
			} else {
				it = nc.GetNodeIterator()
			}
			var visited []string
			it.ForEachNode(func(node *objects.Node) bool {
				visited = append(visited, node.NodeID)
				return true
			})
			c.obs["c19.node_iterations"]++
			seen := map[string]bool{}
			for _, id := range visited {
				if seen[id] {
					c.bad("node-visited-twice", "any", "node %s visited twice; script %v", id, script)
					return
				}
				seen[id] = true
				if _, ok := nodes[id]; !ok {
					c.bad("node-visited-unregistered", "any", "node %s visited but not registered; script %v", id, script)
					return
				}
			}
			for id := range nodes {
				skip := !full && reserved[id] != ""
				if skip && seen[id] {
					c.bad("reserved-node-in-unreserved-view", "any", "reserved node %s visited by the unreserved iterator; script %v", id, script)
					return
				}
				if !skip && !seen[id] {
					view := "full"
					if !full {
						view = "unreserved"
					}
					c.bad("node-not-visited", view, "registered node %s not visited by the %s iterator; visited %v; script %v", id, view, visited, script)
					return
				}
			}
			for i := 1; i < len(visited); i++ {
				a, b := nodes[visited[i-1]], nodes[visited[i]]
				sa, sb := policy.ScoreNode(a), policy.ScoreNode(b)
				if sa > sb+1e-9 || (sa > sb-1e-9 && sa < sb+1e-9 && false) {
					c.bad("node-order-stale", policy.PolicyType().String(), "node %s (score %.6f on current utilisation) visited before %s (score %.6f); script %v", visited[i-1], sa, visited[i], sb, script)
					return
				}
			}
		}
	}
	c.h.Write([]byte(strings.Join(script, ";")))
}

// RunC19 runs one case: several worlds of each kind.
func RunC19(seed uint64) *det.CaseResult {
	shim.InitLogger()
	hh := sha256.New()
	c := &c19{r: det.NewRng(seed), obs: map[string]int64{}, h: hh}
	for i := 0; i < 12; i++ {
		c.queueWorld()
	}
	for i := 0; i < 8; i++ {
		c.appWorld()
	}
	for i := 0; i < 6; i++ {
		c.askWorld()
	}
	for i := 0; i < 4; i++ {
		c.nodeWorld()
	}
	for i := 0; i < 10; i++ {
		c.allocWorld()
	}
	out := &det.CaseResult{Prop: "C19", Seed: seed, Obs: c.obs, Nontrivial: c.obs["c19.queue_pairs_distinguished"] > 0 && c.obs["c19.queue_pairs_tied"] > 0}
	out.Hash = hex.EncodeToString(hh.Sum(nil)[:12])
	for _, v := range c.v {
		out.Violations = append(out.Violations, det.Violation{Prop: "C19", Rule: v.rule, Signature: "C19/" + v.rule + "/" + v.class, Text: v.text})
	}
	out.Sample = &det.Sample{Seed: fmt.Sprintf("%#x", seed), Ops: []string{"12 queue worlds (parent with 2-9 children, random guaranteed/max/allocated/pending/priority/offset, sorted 16 times through the real sortQueues), 8 application worlds (sorted 12 times), 6 ask scripts, 4 node collection scripts, 10 allocation worlds (real Queue.TryAllocate until every ask is allocated; each decision judged against the sort keys read right before the call)"}}
	return out
}
