package pure

import (
	"crypto/sha256"
	"encoding/hex"
	"fmt"
	"regexp"
	"strconv"
	"strings"

	"github.com/apache/yunikorn-core/pkg/common/configs"
	"github.com/apache/yunikorn-core/pkg/scheduler"
	"github.com/apache/yunikorn-core/pkg/scheduler/ugm"

	"verifharness/det"
	"verifharness/shim"
)

// ---- document model of the generator (what was written, with the numeric meaning the generator intended) ----

type qdoc struct {
	name      string
	parent    *bool
	max, guar map[string]string
	maxapps   int
	props     map[string]string
	admin     *string
	submit    *string
	limits    []ldoc
	children  []*qdoc
	tmplMax   map[string]string
	tmplApps  int
}

type ldoc struct {
	name          string
	users, groups []string
	maxres        map[string]string
	maxapps       int
}

type rdoc struct {
	name    string
	create  bool
	value   string
	parent  *rdoc
	ftype   string
	fusers  []string
	fgroups []string
}

type cdoc struct {
	root     *qdoc
	rules    []*rdoc
	nodesort string
	rootName string
}

type c15 struct {
	r   *det.Rng
	v   []viol
	obs map[string]int64
}

func (c *c15) bad(rule, class, f string, a ...interface{}) {
	if len(c.v) < 30 {
		c.v = append(c.v, viol{rule, class, fmt.Sprintf(f, a...)})
	}
}

var qnames = []string{"a", "b", "c", "dev", "Prod", "prod", "team-1", "x_y", "q#1", "a", "B"}
var badNames = []string{"", "has space", "dot.ted", "ünï", strings.Repeat("q", 65), "root"}

func (c *c15) resMap(hi int, density int, junk bool) map[string]string {
	r := c.r
	out := map[string]string{}
	for _, t := range []string{"memory", "vcore", "gpu"} {
		if !r.Chance(density) {
			continue
		}
		v := strconv.Itoa(r.Range(0, hi))
		if r.Chance(120) {
			suffix := []string{"k", "M", "Ki", "G"}
			if t == "vcore" {
				suffix = []string{"m", "k"}
			}
			v += suffix[r.Intn(len(suffix))]
		}
		if junk && r.Chance(40) {
			v = []string{"-1", "1.5", "abc", "", "1e3", "9223372036854775808", "10 Gi"}[r.Intn(7)]
		}
		out[t] = v
	}
	if len(out) == 0 {
		return nil
	}
	return out
}

func (c *c15) genQueue(depth int, name string, junk bool) *qdoc {
	r := c.r
	q := &qdoc{name: name}
	hi := []int{40, 30, 20, 12}[depth%4]
	if r.Chance(550) {
		q.max = c.resMap(hi, 650, junk)
	}
	if r.Chance(400) {
		q.guar = c.resMap(hi/2, 650, junk)
	}
	if r.Chance(300) {
		q.maxapps = r.Range(1, 6)
	}
	if r.Chance(200) {
		q.props = map[string]string{}
		for i := 0; i < r.Range(1, 2); i++ {
			k := []string{"application.sort.policy", "application.sort.priority", "priority.policy", "priority.offset", "preemption.policy", "preemption.delay", "quota.preemption.delay", "unknown.property"}[r.Intn(8)]
			v := map[string][]string{
				"application.sort.policy": {"fifo", "fair", "stateaware", "junk"}, "application.sort.priority": {"enabled", "disabled", "x"}, "priority.policy": {"default", "fence", "x"},
				"priority.offset": {"0", "5", "-3", "x", "99999999999"}, "preemption.policy": {"default", "fence", "disabled", "x"}, "preemption.delay": {"10s", "1h", "x", "-5s"},
				"quota.preemption.delay": {"10s", "0s", "x"}, "unknown.property": {"v"},
			}[k]
			q.props[k] = v[r.Intn(len(v))]
		}
	}
	acl := func() *string {
		if !r.Chance(300) {
			return nil
		}
		s := []string{"*", "", "u1", "u1 g1", "u1,u2 g1,g2", " g1", "u1 ", " ", "u1  g1", " u1 g1", "u1 g1 extra", "u1,u2", "*,u1 g1", "u1 *"}[r.Intn(14)]
		return &s
	}
	q.admin, q.submit = acl(), acl()
	if r.Chance(350) {
		n := r.Range(1, 3)
		for i := 0; i < n; i++ {
			l := ldoc{name: fmt.Sprintf("l%d", i)}
			switch r.Intn(6) {
			case 0:
				l.users = []string{"u1"}
			case 1:
				l.users = []string{"*"}
			case 2:
				l.groups = []string{"g1"}
			case 3:
				l.users, l.groups = []string{"u2"}, []string{"g2"}
			case 4:
				l.groups = []string{"*"}
			default:
				l.users = []string{[]string{"u1", "u2", "bad name", ""}[r.Intn(4)]}
			}
			if r.Chance(750) {
				l.maxres = c.resMap(hi, 650, junk)
			}
			if l.maxres == nil || r.Chance(350) {
				l.maxapps = r.Range(0, 5)
			}
			q.limits = append(q.limits, l)
		}
	}
	if depth < 3 && r.Chance([]int{950, 600, 350}[depth]) {
		n := r.Range(1, 3)
		for i := 0; i < n; i++ {
			nm := qnames[r.Intn(len(qnames))]
			if junk && r.Chance(60) {
				nm = badNames[r.Intn(len(badNames))]
			}
			q.children = append(q.children, c.genQueue(depth+1, nm, junk))
		}
		if r.Chance(200) {
			q.tmplMax = c.resMap(hi, 600, junk)
			q.tmplApps = r.Range(0, 4)
		}
	}
	if r.Chance(150) {
		b := len(q.children) > 0
		if r.Chance(250) {
			b = !b
		}
		q.parent = &b
	}
	return q
}

func (c *c15) genRule(depth int) *rdoc {
	r := c.r
	rd := &rdoc{name: []string{"provided", "user", "tag", "fixed", "fixed", "Provided", "nosuchrule", "recovery", "1bad"}[r.Intn(9)], create: r.Chance(500)}
	switch strings.ToLower(rd.name) {
	case "fixed":
		rd.value = []string{"root.a", "a", "root.dev.x", "root", "root.a.b.c", "", "root.Prod"}[r.Intn(7)]
	case "tag":
		rd.value = []string{"namespace", "", "queue"}[r.Intn(3)]
	}
	if r.Chance(250) {
		rd.ftype = []string{"allow", "deny", "", "maybe"}[r.Intn(4)]
		rd.fusers = [][]string{{"u1"}, {"u1", "u2"}, {"u.*"}, {"[bad"}, {}}[r.Intn(5)]
		rd.fgroups = [][]string{{"g1"}, {"g.*"}, {}, {"g1", "g2"}}[r.Intn(4)]
	}
	if depth < 2 && r.Chance(300) {
		rd.parent = c.genRule(depth + 1)
	}
	return rd
}

func (c *c15) genDoc(junk bool) *cdoc {
	d := &cdoc{rootName: "root"}
	d.root = c.genQueue(0, "root", junk)
	d.root.max, d.root.guar = nil, nil
	if junk && c.r.Chance(50) {
		d.root.max = map[string]string{"memory": "10"}
	}
	if c.r.Chance(600) {
		for i := 0; i < c.r.Range(1, 3); i++ {
			d.rules = append(d.rules, c.genRule(0))
		}
	}
	d.nodesort = []string{"", "fair", "binpacking", "junk"}[c.r.Weighted([]int{40, 25, 25, 5})]
	return d
}

// ---- YAML writer ----

func yq(s string) string { return strconv.Quote(s) }

func writeMap(b *strings.Builder, ind string, key string, m map[string]string) {
	if m == nil {
		return
	}
	fmt.Fprintf(b, "%s%s:\n", ind, key)
	for _, k := range []string{"memory", "vcore", "gpu"} {
		if v, ok := m[k]; ok {
			fmt.Fprintf(b, "%s  %s: %s\n", ind, k, yq(v))
		}
	}
}

func (q *qdoc) write(b *strings.Builder, ind string) {
	fmt.Fprintf(b, "%s- name: %s\n", ind, yq(q.name))
	in := ind + "  "
	if q.parent != nil {
		fmt.Fprintf(b, "%sparent: %v\n", in, *q.parent)
	}
	if q.max != nil || q.guar != nil {
		fmt.Fprintf(b, "%sresources:\n", in)
		writeMap(b, in+"  ", "guaranteed", q.guar)
		writeMap(b, in+"  ", "max", q.max)
	}
	if q.maxapps > 0 {
		fmt.Fprintf(b, "%smaxapplications: %d\n", in, q.maxapps)
	}
	if len(q.props) > 0 {
		fmt.Fprintf(b, "%sproperties:\n", in)
		for k, v := range q.props {
			fmt.Fprintf(b, "%s  %s: %s\n", in, k, yq(v))
		}
	}
	if q.admin != nil {
		fmt.Fprintf(b, "%sadminacl: %s\n", in, yq(*q.admin))
	}
	if q.submit != nil {
		fmt.Fprintf(b, "%ssubmitacl: %s\n", in, yq(*q.submit))
	}
	if q.tmplMax != nil || q.tmplApps > 0 {
		fmt.Fprintf(b, "%schildtemplate:\n", in)
		if q.tmplApps > 0 {
			fmt.Fprintf(b, "%s  maxapplications: %d\n", in, q.tmplApps)
		}
		if q.tmplMax != nil {
			fmt.Fprintf(b, "%s  resources:\n", in)
			writeMap(b, in+"    ", "max", q.tmplMax)
		}
	}
	if len(q.limits) > 0 {
		fmt.Fprintf(b, "%slimits:\n", in)
		for _, l := range q.limits {
			fmt.Fprintf(b, "%s  - limit: %s\n", in, yq(l.name))
			if len(l.users) > 0 {
				fmt.Fprintf(b, "%s    users: [%s]\n", in, quoteList(l.users))
			}
			if len(l.groups) > 0 {
				fmt.Fprintf(b, "%s    groups: [%s]\n", in, quoteList(l.groups))
			}
			writeMap(b, in+"    ", "maxresources", l.maxres)
			if l.maxapps > 0 {
				fmt.Fprintf(b, "%s    maxapplications: %d\n", in, l.maxapps)
			}
		}
	}
	if len(q.children) > 0 {
		fmt.Fprintf(b, "%squeues:\n", in)
		for _, ch := range q.children {
			ch.write(b, in+"  ")
		}
	}
}

func quoteList(xs []string) string {
	out := make([]string, len(xs))
	for i, x := range xs {
		out[i] = yq(x)
	}
	return strings.Join(out, ", ")
}

func (r *rdoc) write(b *strings.Builder, ind string, first bool) {
	p := ind + "  "
	if first {
		fmt.Fprintf(b, "%s- name: %s\n", ind, yq(r.name))
	} else {
		fmt.Fprintf(b, "%sname: %s\n", p, yq(r.name))
	}
	if r.create {
		fmt.Fprintf(b, "%screate: true\n", p)
	}
	if r.value != "" {
		fmt.Fprintf(b, "%svalue: %s\n", p, yq(r.value))
	}
	if r.ftype != "" || len(r.fusers) > 0 || len(r.fgroups) > 0 {
		fmt.Fprintf(b, "%sfilter:\n%s  type: %s\n", p, p, yq(r.ftype))
		if len(r.fusers) > 0 {
			fmt.Fprintf(b, "%s  users: [%s]\n", p, quoteList(r.fusers))
		}
		if len(r.fgroups) > 0 {
			fmt.Fprintf(b, "%s  groups: [%s]\n", p, quoteList(r.fgroups))
		}
	}
	if r.parent != nil {
		fmt.Fprintf(b, "%sparent:\n", p)
		r.parent.write(b, p, false)
	}
}

func (d *cdoc) yaml() string {
	var b strings.Builder
	b.WriteString("partitions:\n  - name: default\n")
	if d.nodesort != "" {
		fmt.Fprintf(&b, "    nodesortpolicy:\n      type: %s\n", d.nodesort)
	}
	if len(d.rules) > 0 {
		b.WriteString("    placementrules:\n")
		for _, r := range d.rules {
			r.write(&b, "      ", true)
		}
	}
	b.WriteString("    queues:\n")
	d.root.write(&b, "      ")
	return b.String()
}

// ---- reference checker over the document model (three-valued: returns only what is certainly violated) ----

var mults = map[string]int64{"": 1, "k": 1000, "M": 1000000, "G": 1000000000, "Ki": 1 << 10}
var numRe = regexp.MustCompile(`^([0-9]+)([a-zA-Z]*)$`)

// parseRes: ok=false when the generator wrote something the reference does not want to interpret.
func parseRes(m map[string]string) (map[string]int64, bool) {
	out := map[string]int64{}
	for k, v := range m {
		mm := numRe.FindStringSubmatch(v)
		if mm == nil {
			return nil, false
		}
		n, err := strconv.ParseInt(mm[1], 10, 64)
		if err != nil {
			return nil, false
		}
		suf := mm[2]
		if k == "vcore" {
			if suf == "m" {
				out[k] = n
				continue
			}
			mu, ok := mults[suf]
			if !ok {
				return nil, false
			}
			out[k] = n * mu * 1000
			continue
		}
		mu, ok := mults[suf]
		if !ok {
			return nil, false
		}
		out[k] = n * mu
	}
	return out, true
}

var qnameRe = regexp.MustCompile(`^[a-zA-Z0-9_:#/@-]{1,64}$`)

type refCtx struct {
	c    *c15
	doc  string
	skip bool
}

func minMap(a, b map[string]int64) map[string]int64 {
	if a == nil {
		return b
	}
	if b == nil {
		return a
	}
	out := map[string]int64{}
	for k, v := range a {
		out[k] = v
	}
	for k, v := range b {
		if w, ok := out[k]; !ok || v < w {
			out[k] = v
		}
	}
	return out
}

// checkQueue returns the effective guaranteed of the queue.
func (rc *refCtx) checkQueue(q *qdoc, path string, parentMax map[string]int64, parentApps int, userLim, groupLim map[string]map[string]int64) map[string]int64 {
	c := rc.c
	max, ok1 := parseRes(q.max)
	guar, ok2 := parseRes(q.guar)
	if !ok1 || !ok2 {
		rc.skip = true
		return nil
	}
	if path == "root" && (q.max != nil || q.guar != nil) {
		c.bad("accepted-root-with-limits", "hierarchy", "accepted configuration has resources on the root queue: %s", rc.doc)
	}
	// names unique per level
	seen := map[string]bool{}
	for _, ch := range q.children {
		if !qnameRe.MatchString(ch.name) {
			c.bad("accepted-invalid-queue-name", "hierarchy", "accepted configuration has invalid queue name %q under %s: %s", ch.name, path, rc.doc)
		}
		l := strings.ToLower(ch.name)
		if seen[l] {
			c.bad("accepted-duplicate-queue-name", "hierarchy", "accepted configuration has duplicate child %q under %s: %s", ch.name, path, rc.doc)
		}
		seen[l] = true
	}
	if q.max != nil && parentMax != nil {
		for k, v := range max {
			if p, ok := parentMax[k]; ok && v > p {
				c.bad("accepted-child-max-above-parent", "hierarchy", "queue %s max %s=%d above the parent's %d: %s", path, k, v, p, rc.doc)
			}
		}
	}
	if q.max != nil {
		for k, g := range guar {
			if m, ok := max[k]; ok && g > m {
				c.bad("accepted-guaranteed-above-max", "hierarchy", "queue %s guaranteed %s=%d above its max %d: %s", path, k, g, m, rc.doc)
			}
		}
	}
	if parentApps != 0 {
		if q.maxapps == 0 || q.maxapps > parentApps {
			c.bad("accepted-maxapps-not-decreasing", "hierarchy", "queue %s maxapplications %d under a parent with %d: %s", path, q.maxapps, parentApps, rc.doc)
		}
	}
	var effMax map[string]int64
	if q.max != nil {
		effMax = minMap(max, parentMax)
	} else {
		effMax = parentMax
	}
	// limits
	ul, gl := map[string]map[string]int64{}, map[string]map[string]int64{}
	for k, v := range userLim {
		ul[k] = v
	}
	for k, v := range groupLim {
		gl[k] = v
	}
	for _, l := range q.limits {
		lr, ok := parseRes(l.maxres)
		if !ok {
			rc.skip = true
			return nil
		}
		if path != "root" && q.max != nil {
			for k, v := range lr {
				if m, ok := max[k]; ok && v > m {
					c.bad("accepted-limit-above-queue-max", "limits", "queue %s limit %s %s=%d above the queue max %d: %s", path, l.name, k, v, m, rc.doc)
				}
			}
		}
		check := func(kind string, names []string, parent map[string]map[string]int64, cur map[string]map[string]int64) {
			for _, n := range names {
				anc, ok := parent[n]
				if !ok && n != "*" {
					anc, ok = parent["*"]
				}
				if ok && l.maxres != nil {
					for k, v := range lr {
						if p, ok := anc[k]; ok && v > p {
							c.bad("accepted-limit-above-ancestor", "limits", "queue %s %s %s limit %s=%d above the limit %d of an ancestor: %s", path, kind, n, k, v, p, rc.doc)
						}
					}
				}
				if l.maxres != nil {
					if a, ok := parent[n]; ok {
						cur[n] = minMap(lr, a)
					} else {
						cur[n] = lr
					}
				}
			}
		}
		check("user", l.users, userLim, ul)
		check("group", l.groups, groupLim, gl)
	}
	sum := map[string]int64{}
	for _, ch := range q.children {
		cg := rc.checkQueue(ch, path+"."+strings.ToLower(ch.name), effMax, q.maxapps, ul, gl)
		if rc.skip {
			return nil
		}
		for k, v := range cg {
			sum[k] += v
		}
	}
	for k, s := range sum {
		if g, ok := guar[k]; ok && q.guar != nil && s > g {
			c.bad("accepted-children-guaranteed-above-parent", "hierarchy", "queue %s children guaranteed %s sum %d above the queue's guaranteed %d: %s", path, k, s, g, rc.doc)
		}
		if m, ok := effMax[k]; ok && s > m {
			c.bad("accepted-children-guaranteed-above-max", "hierarchy", "queue %s children guaranteed %s sum %d above the queue's max %d: %s", path, k, s, m, rc.doc)
		}
	}
	zero := true
	for _, v := range guar {
		if v != 0 {
			zero = false
		}
	}
	if zero {
		return sum
	}
	return guar
}

var knownRules = map[string]bool{"provided": true, "user": true, "tag": true, "fixed": true}

func rulesResolvable(rs []*rdoc) (bool, string) {
	for _, r := range rs {
		for x := r; x != nil; x = x.parent {
			if !knownRules[strings.ToLower(x.name)] {
				return false, x.name
			}
		}
	}
	return true, ""
}

func qualifiedFixedWithParent(rs []*rdoc) bool {
	for _, r := range rs {
		for x := r; x != nil; x = x.parent {
			if strings.ToLower(x.name) == "fixed" && strings.HasPrefix(strings.ToLower(x.value), "root") && x.parent != nil {
				return true
			}
		}
	}
	return false
}

const baseConf = `
partitions:
  - name: default
    queues:
      - name: root
        submitacl: "*"
        queues:
          - name: a
          - name: b
            parent: true
            queues:
              - name: b1
`

func guard(f func()) (p interface{}) {
	defer func() { p = recover() }()
	f()
	return nil
}

// RunC15 runs one case: a batch of generated documents.
func RunC15(seed uint64, docs int) *det.CaseResult {
	shim.InitLogger()
	c := &c15{r: det.NewRng(seed), obs: map[string]int64{}}
	hh := sha256.New()
	res := &det.CaseResult{Prop: "C15", Seed: seed}
	var samples []string
	for i := 0; i < docs; i++ {
		junk := c.r.Chance(400)
		d := c.genDoc(junk)
		y := d.yaml()
		hh.Write([]byte(y))
		c.obs["c15.documents"]++
		// 1. validation never panics and is deterministic
		var firstErr error
		accepted := false
		panicked := false
		for k := 0; k < 6; k++ {
			var err error
			if p := guard(func() { _, err = configs.LoadSchedulerConfigFromByteArray([]byte(y)) }); p != nil {
				c.bad("validator-panic", "panic", "LoadSchedulerConfigFromByteArray panicked (%v) on:\n%s", p, y)
				panicked = true
				break
			}
			if k == 0 {
				firstErr, accepted = err, err == nil
			} else if (err == nil) != accepted {
				c.bad("validation-not-deterministic", "map-order", "the same document was accepted and rejected in repeated validations (errors %v / %v):\n%s", firstErr, err, y)
				break
			}
		}
		if panicked {
			continue
		}
		if !accepted {
			c.obs["c15.rejected"]++
			continue
		}
		c.obs["c15.accepted"]++
		if len(samples) < 2 && len(d.root.children) > 0 {
			samples = append(samples, y)
		}
		// 2. accepted documents satisfy the hierarchy rules
		rc := &refCtx{c: c, doc: "\n" + y}
		rc.checkQueue(d.root, "root", nil, 0, map[string]map[string]int64{}, map[string]map[string]int64{})
		if rc.skip {
			c.obs["c15.reference_skipped"]++
		} else {
			c.obs["c15.reference_checked"]++
		}
		resolvable, badRule := rulesResolvable(d.rules)
		if !resolvable {
			c.bad("accepted-unresolvable-rule", "rule:"+strings.ToLower(badRule), "accepted configuration names placement rule %q which does not exist:\n%s", badRule, y)
		}
		// 3. loading into a new scheduler
		ugm.GetUserManager().ClearConfigLimits()
		var cc *scheduler.ClusterContext
		var err error
		if p := guard(func() { cc, err = scheduler.NewClusterContext("rm:1", "policy", []byte(y)) }); p != nil {
			c.bad("load-panic", "fresh", "NewClusterContext panicked (%v) on an accepted configuration:\n%s", p, y)
			continue
		}
		if err != nil {
			c.bad("accepted-but-not-loadable", "fresh/"+errClass(err), "NewClusterContext failed (%v) on an accepted configuration:\n%s", err, y)
		} else {
			c.obs["c15.loaded_fresh"]++
			if pc := cc.GetPartition("[rm:1]default"); pc != nil && len(d.rules) > 0 {
				active := 0
				for _, r := range pc.GetPlacementRules() {
					if r.Name != "recovery" {
						active++
					}
				}
				if active == 0 {
					cls := "fresh"
					if !resolvable {
						cls = "fresh/unknown-rule-name"
					} else if qualifiedFixedWithParent(d.rules) {
						cls = "fresh/fixed-qualified-with-parent"
					}
					c.bad("loaded-without-rules", cls, "the configuration defines %d placement rules, the loaded partition has none active:\n%s", len(d.rules), y)
				}
			}
			cc.Stop()
		}
		// 4. loading into a running scheduler
		ugm.GetUserManager().ClearConfigLimits()
		var run *scheduler.ClusterContext
		if p := guard(func() { run, err = scheduler.NewClusterContext("rm:1", "policy", []byte(baseConf)) }); p != nil || err != nil {
			continue
		}
		if p := guard(func() { err = run.UpdateRMSchedulerConfig("rm:1", []byte(y)) }); p != nil {
			c.bad("load-panic", "reload", "UpdateRMSchedulerConfig panicked (%v) on an accepted configuration:\n%s", p, y)
		} else if err != nil {
			c.bad("accepted-but-not-loadable", "reload/"+errClass(err), "UpdateRMSchedulerConfig failed (%v) on an accepted configuration:\n%s", err, y)
		} else {
			c.obs["c15.loaded_reload"]++
		}
		run.Stop()
	}
	ugm.GetUserManager().ClearConfigLimits()
	res.Obs = c.obs
	res.Nontrivial = c.obs["c15.accepted"] > 0 && c.obs["c15.reference_checked"] > 0
	res.Hash = hex.EncodeToString(hh.Sum(nil)[:12])
	for _, v := range c.v {
		res.Violations = append(res.Violations, det.Violation{Prop: "C15", Rule: v.rule, Signature: "C15/" + v.rule + "/" + v.class, Text: v.text})
	}
	res.Sample = &det.Sample{Seed: fmt.Sprintf("%#x", seed), Ops: samples}
	return res
}

// errClass maps an error text to a coarse class for signatures (stable words only).
func errClass(err error) string {
	s := err.Error()
	if strings.Contains(s, "unknown rule name") {
		return "unknown-rule-name"
	}
	if strings.Contains(s, "qualified queue") {
		return "fixed-qualified-with-parent"
	}
	for _, k := range []string{"ACL", "rule", "sort", "property", "priority", "preemption", "delay", "template", "limit", "queue", "resource"} {
		if strings.Contains(strings.ToLower(s), strings.ToLower(k)) {
			return strings.ToLower(k)
		}
	}
	return "other"
}
