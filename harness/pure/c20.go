package pure

import (
	"crypto/sha256"
	"encoding/hex"
	"fmt"
	"math"
	"sync"
	"sync/atomic"
	"time"

	"github.com/apache/yunikorn-core/pkg/events"
	"github.com/apache/yunikorn-scheduler-interface/lib/go/si"

	"verifharness/det"
)

// refRing is the list-based reference model of the event history.
type refRing struct {
	all    []*si.EventRecord // every event ever added, id = index
	cap    uint64
	lowest uint64
}

func (m *refRing) add(e *si.EventRecord) {
	m.all = append(m.all, e)
	n := uint64(len(m.all))
	if n-m.lowest > m.cap {
		m.lowest = n - m.cap
	}
}

func (m *refRing) resize(c uint64) {
	m.cap = c
	n := uint64(len(m.all))
	if n-m.lowest > c {
		m.lowest = n - c
	}
}

type c20 struct {
	v   []viol
	obs map[string]int64
}

func (c *c20) bad(rule, class, f string, a ...interface{}) {
	if len(c.v) < 40 {
		c.v = append(c.v, viol{rule, class, fmt.Sprintf(f, a...)})
	}
}

// guard runs a call into the code under test and turns a panic into a violation.
func (c *c20) guard(name string, script func() string, f func()) (ok bool) {
	defer func() {
		if r := recover(); r != nil {
			c.bad("panic", name, "%s panicked: %v; %s", name, r, script())
			ok = false
		}
	}()
	f()
	return true
}

func ids(m *refRing, evs []*si.EventRecord) []int64 {
	idx := map[*si.EventRecord]int64{}
	for i, e := range m.all {
		idx[e] = int64(i)
	}
	out := make([]int64, len(evs))
	for i, e := range evs {
		if e == nil {
			out[i] = -2
			continue
		}
		if v, ok := idx[e]; ok {
			out[i] = v
		} else {
			out[i] = -1
		}
	}
	return out
}

// class describes the geometry of the real buffer for a query (used in signatures).
func (c *c20) checkQuery(m *refRing, ring *events.VerifRing, start, count uint64, script func() string, resized bool) {
	var got []*si.EventRecord
	var lo, hi uint64
	if !c.guard("GetEventsFromID", script, func() { got, lo, hi = ring.GetEventsFromID(start, count) }) {
		return
	}
	c.obs["c20.queries"]++
	n := uint64(len(m.all))
	cls := "plain"
	if resized {
		cls = "after-resize"
	}
	if n > m.cap {
		cls += "+wrapped"
	}
	gi := ids(m, got)
	if start < m.lowest || start >= n {
		c.obs["c20.queries_outside"]++
		if len(got) != 0 {
			c.bad("outside-range-returns-events", cls, "GetEventsFromID(%d,%d) with available ids [%d,%d) returned ids %v; %s", start, count, m.lowest, n, gi, script())
		}
		if n > 0 && (lo != m.lowest || hi != n-1) {
			c.bad("outside-range-wrong-bounds", cls, "GetEventsFromID(%d,%d) reported available range [%d,%d], reference [%d,%d]; %s", start, count, lo, hi, m.lowest, n-1, script())
		}
		return
	}
	c.obs["c20.queries_inside"]++
	end := n
	if count < n-start {
		end = start + count
	}
	want := end - start
	okSeq := uint64(len(got)) == want
	if okSeq {
		for i, id := range gi {
			if id != int64(start)+int64(i) {
				okSeq = false
			}
		}
	}
	if !okSeq {
		geo := cls
		if uint64(len(got)) > want {
			geo += "+too-many"
		} else if uint64(len(got)) < want {
			geo += "+too-few"
		} else {
			geo += "+wrong-events"
		}
		c.bad("range-not-exact", geo, "GetEventsFromID(%d,%d) returned ids %v, expected ids %d..%d (available [%d,%d), capacity %d); %s", start, count, gi, start, int64(end)-1, m.lowest, n, m.cap, script())
	}
	if lo != m.lowest || (n > 0 && hi != n-1) {
		c.bad("inside-range-wrong-bounds", cls, "GetEventsFromID(%d,%d) reported available range [%d,%d], reference [%d,%d]; %s", start, count, lo, hi, m.lowest, n-1, script())
	}
}

func (c *c20) checkRecent(m *refRing, ring *events.VerifRing, count uint64, script func() string, resized bool) {
	var got []*si.EventRecord
	if !c.guard("GetRecentEvents", script, func() { got = ring.GetRecentEvents(count) }) {
		return
	}
	c.obs["c20.recent_queries"]++
	n := uint64(len(m.all))
	avail := n - m.lowest
	want := count
	if avail < want {
		want = avail
	}
	gi := ids(m, got)
	ok := uint64(len(got)) == want
	if ok {
		for i, id := range gi {
			if id != int64(n-want)+int64(i) {
				ok = false
			}
		}
	}
	if !ok {
		cls := "plain"
		if resized {
			cls = "after-resize"
		}
		if count > avail {
			cls += "+count-exceeds-available"
		}
		c.bad("recent-not-exact", cls, "GetRecentEvents(%d) returned ids %v, expected the last %d of available [%d,%d); %s", count, gi, want, m.lowest, n, script())
	}
}

func newEv(i int) *si.EventRecord {
	return &si.EventRecord{Type: si.EventRecord_APP, ObjectID: fmt.Sprintf("e%d", i), TimestampNano: int64(i)}
}

// ringScript runs one random script of adds / resizes / queries.
func (c *c20) ringScript(r *det.Rng, h interface{ Write([]byte) (int, error) }) {
	capacity := uint64(r.Range(1, 12))
	ring := events.VerifNewRing(capacity)
	m := &refRing{cap: capacity}
	var log []string
	script := func() string { return fmt.Sprintf("script: cap=%d %v", capacity, log) }
	resized := false
	steps := r.Range(3, 60)
	n := 0
	for s := 0; s < steps; s++ {
		switch r.Weighted([]int{50, 8, 30, 12}) {
		case 0:
			k := r.Range(1, 4)
			for i := 0; i < k; i++ {
				e := newEv(n)
				n++
				c.guard("Add", script, func() { ring.Add(e) })
				m.add(e)
			}
			log = append(log, fmt.Sprintf("add*%d", k))
			c.obs["c20.adds"] += int64(k)
		case 1:
			nc := uint64(r.Range(1, 14))
			c.guard("Resize", script, func() { ring.Resize(nc) })
			m.resize(nc)
			resized = true
			log = append(log, fmt.Sprintf("resize(%d)", nc))
			c.obs["c20.resizes"]++
			// after a resize the buffer holds exactly the most recent events: query everything
			c.checkQuery(m, ring, m.lowest, math.MaxUint64, script, true)
		case 2:
			total := uint64(len(m.all))
			var start uint64
			switch r.Intn(5) {
			case 0:
				start = m.lowest
			case 1:
				start = total + uint64(r.Intn(3))
			case 2:
				if m.lowest > 0 {
					start = m.lowest - 1 - uint64(r.Intn(int(m.lowest)))
				}
			default:
				if total > m.lowest {
					start = m.lowest + uint64(r.Intn(int(total-m.lowest)))
				}
			}
			var count uint64
			switch r.Intn(6) {
			case 0:
				count = 0
			case 1:
				count = math.MaxUint64
			case 2:
				count = m.cap + uint64(r.Intn(3))
			default:
				count = uint64(r.Range(1, int(m.cap)+1))
			}
			log = append(log, fmt.Sprintf("get(%d,%d)", start, count))
			c.checkQuery(m, ring, start, count, script, resized)
		default:
			count := uint64(r.Range(0, int(m.cap)+3))
			log = append(log, fmt.Sprintf("recent(%d)", count))
			c.checkRecent(m, ring, count, script, resized)
		}
		// ids are consecutive from 0
		if uint64(len(m.all)) > 0 && ring.GetLastEventID() != uint64(len(m.all))-1 {
			c.bad("ids-not-consecutive", "plain", "last event id %d after %d events; %s", ring.GetLastEventID(), len(m.all), script())
		}
	}
	h.Write([]byte(script()))
}

// exhaustive enumerates a small sub-space completely: capacity <= maxCap, fill <= 2*cap+1, at most one resize at any
// position, every (start,count) with count <= cap+2 and every recent count.
func (c *c20) exhaustive(maxCap int) int64 {
	var states int64
	for capacity := 1; capacity <= maxCap; capacity++ {
		for fill := 0; fill <= 2*capacity+1; fill++ {
			for resizeAt := -1; resizeAt <= fill; resizeAt++ {
				newCaps := []int{0}
				if resizeAt >= 0 {
					newCaps = nil
					for nc := 1; nc <= maxCap+2; nc++ {
						newCaps = append(newCaps, nc)
					}
				}
				for _, nc := range newCaps {
					ring := events.VerifNewRing(uint64(capacity))
					m := &refRing{cap: uint64(capacity)}
					for i := 0; i <= fill; i++ {
						if i == resizeAt {
							ring.Resize(uint64(nc))
							m.resize(uint64(nc))
						}
						if i < fill {
							e := newEv(i)
							ring.Add(e)
							m.add(e)
						}
					}
					states++
					script := func() string {
						return fmt.Sprintf("exhaustive: cap=%d fill=%d resize(%d) before add #%d", capacity, fill, nc, resizeAt)
					}
					for start := uint64(0); start <= uint64(fill)+1; start++ {
						for count := uint64(0); count <= m.cap+2; count++ {
							c.checkQuery(m, ring, start, count, script, resizeAt >= 0)
						}
						c.checkQuery(m, ring, start, math.MaxUint64, script, resizeAt >= 0)
					}
					for count := uint64(0); count <= m.cap+2; count++ {
						c.checkRecent(m, ring, count, script, resizeAt >= 0)
					}
				}
			}
		}
	}
	return states
}

// storeScript checks the event store: batches never exceed the size in force, nothing stored below capacity is lost.
func (c *c20) storeScript(r *det.Rng) {
	size := uint64(r.Range(1, 8))
	st := events.VerifNewStore(size)
	inForce := size // size of the current backing array (changes take effect at the next collect)
	configured := size
	var pending []*si.EventRecord
	n := 0
	for s := 0; s < r.Range(5, 60); s++ {
		switch r.Weighted([]int{60, 25, 15}) {
		case 0:
			e := newEv(n)
			n++
			if uint64(len(pending)) < inForce {
				pending = append(pending, e)
			}
			st.Store(e)
		case 1:
			got := st.CollectEvents()
			c.obs["c20.store_collects"]++
			if uint64(len(got)) > inForce {
				c.bad("store-batch-too-large", "plain", "CollectEvents returned %d events, store size in force %d", len(got), inForce)
			}
			if len(got) != len(pending) {
				c.bad("store-lost-or-extra", "plain", "CollectEvents returned %d events, %d were stored below capacity", len(got), len(pending))
			} else {
				for i := range got {
					if got[i] != pending[i] {
						c.bad("store-wrong-order", "plain", "CollectEvents event %d differs from the stored one", i)
						break
					}
				}
			}
			pending = nil
			inForce = configured
		default:
			configured = uint64(r.Range(1, 8))
			st.SetStoreSize(configured)
		}
	}
}

// streamRun: one publisher goroutine (ring.Add + PublishEvent, as the event system does), concurrent resizes and
// subscribers created at random moments with random history counts.
func (c *c20) streamRun(r *det.Rng) {
	capacity := uint64(r.Range(4, 64))
	ring := events.VerifNewRing(capacity)
	streaming := ring.VerifStreaming()
	total := r.Range(50, 600)
	nSubs := r.Range(1, 5)
	resizes := r.Range(0, 3)
	var mu sync.Mutex // protects "published": the publisher's own record of the global order
	var published []*si.EventRecord
	inRing := 0 // events fully published (Add and PublishEvent returned)
	var progress atomic.Int64
	done := make(chan struct{})
	delays := make([]int, total)
	for i := range delays {
		delays[i] = r.Intn(40)
	}
	go func() {
		defer close(done)
		for i := 0; i < total; i++ {
			e := newEv(i)
			mu.Lock()
			published = append(published, e)
			mu.Unlock()
			ring.Add(e)
			streaming.PublishEvent(e)
			mu.Lock()
			inRing++ // the event is in the ring and has been handed to every subscriber registered so far
			mu.Unlock()
			progress.Add(1)
			if delays[i] == 0 {
				time.Sleep(20 * time.Microsecond)
			}
		}
	}()
	type sub struct {
		count    uint64
		n0, n1   int
		stream   *events.EventStream
		got      []*si.EventRecord
		lastSeen atomic.Pointer[si.EventRecord]
		wg       sync.WaitGroup
		early    time.Duration // > 0: the subscriber goes away while events are still being published
	}
	subs := make([]*sub, nSubs)
	var wg sync.WaitGroup
	for i := range subs {
		s := &sub{count: uint64(r.Intn(int(capacity) + 4))}
		wait := time.Duration(r.Intn(3000)) * time.Microsecond
		if i == 0 && r.Chance(500) {
			s.early = time.Duration(1+r.Intn(2000)) * time.Microsecond
		}
		subs[i] = s
		wg.Add(1)
		go func() {
			defer wg.Done()
			time.Sleep(wait)
			mu.Lock()
			s.n0 = inRing
			mu.Unlock()
			s.stream = streaming.CreateEventStream("sub", s.count)
			mu.Lock()
			s.n1 = len(published)
			mu.Unlock()
			s.wg.Add(1)
			go func() {
				defer s.wg.Done()
				for e := range s.stream.Events {
					s.got = append(s.got, e)
					s.lastSeen.Store(e)
					progress.Add(1)
				}
			}()
			if s.early > 0 {
				time.Sleep(s.early)
				streaming.RemoveEventStream(s.stream)
			}
		}()
	}
	rs := make([]uint64, resizes)
	for i := range rs {
		rs[i] = uint64(r.Range(2, 80))
	}
	wg.Add(1)
	go func() {
		defer wg.Done()
		for _, nc := range rs {
			time.Sleep(300 * time.Microsecond)
			ring.Resize(nc)
		}
	}()
	<-done
	wg.Wait()
	// let the bridges drain: wait (bounded) until every subscriber has seen the last event
	last := published[len(published)-1]
	deadline := time.Now().Add(10 * time.Second)
	lastProgress, idleSince := progress.Load(), time.Now()
	for time.Now().Before(deadline) {
		allDone := true
		for _, s := range subs {
			if s.early == 0 && s.lastSeen.Load() != last {
				allDone = false
			}
		}
		if allDone {
			break
		}
		if p := progress.Load(); p != lastProgress {
			lastProgress, idleSince = p, time.Now()
		} else if time.Since(idleSince) > 300*time.Millisecond {
			break // nothing moves any more
		}
		time.Sleep(time.Millisecond)
	}
	for _, s := range subs {
		streaming.RemoveEventStream(s.stream)
	}
	for _, s := range subs {
		s.wg.Wait()
	}
	idx := map[*si.EventRecord]int{}
	for i, e := range published {
		idx[e] = i
	}
	c.obs["c20.stream_runs"]++
	for si, s := range subs {
		c.obs["c20.subscribers"]++
		c.obs["c20.stream_events_received"] += int64(len(s.got))
		if s.early > 0 {
			c.obs["c20.subscribers_removed_while_publishing"]++
		}
		if len(s.got) == 0 {
			if s.n1 < total && s.early == 0 {
				c.bad("stream-missed-events", "empty", "subscriber created when %d..%d of %d events were published received nothing", s.n0, s.n1, total)
			}
			continue
		}
		prev := -1
		okSeq := true
		for i, e := range s.got {
			id, ok := idx[e]
			if !ok {
				what := "nil"
				if e != nil {
					what = fmt.Sprintf("%s (timestamp %d)", e.ObjectID, e.TimestampNano)
				}
				c.bad("stream-unknown-event", "plain", "subscriber %d/%d (history %d, created when %d..%d of %d events were published) received at position %d of %d an event that was never published: %s", si+1, len(subs), s.count, s.n0, s.n1, total, i, len(s.got), what)
				okSeq = false
				break
			}
			if i > 0 && id != prev+1 {
				kind := "gap"
				if id <= prev {
					kind = "repeat-or-reorder"
				}
				c.bad("stream-not-contiguous", kind, "subscriber (history %d, created at %d..%d published, capacity %d, %d resizes) received id %d after id %d", s.count, s.n0, s.n1, capacity, resizes, id, prev)
				okSeq = false
				break
			}
			prev = id
		}
		if !okSeq {
			continue
		}
		first := idx[s.got[0]]
		if s.early == 0 && s.got[len(s.got)-1] != last {
			c.bad("stream-missed-events", "tail", "subscriber (history %d, created at %d..%d) stopped at id %d of %d although it was never closed before the end", s.count, s.n0, s.n1, prev, total-1)
		}
		if first > s.n1 {
			c.bad("stream-missed-events", "head", "subscriber created when at most %d events were published starts at id %d", s.n1, first)
		}
		if int64(first) < int64(s.n0)-int64(s.count) {
			c.bad("stream-too-much-history", "plain", "subscriber asked for %d historical events when at least %d were published but starts at id %d", s.count, s.n0, first)
		}
	}
}

// RunC20 runs one case.
func RunC20(seed uint64, idx int, tier string) *det.CaseResult {
	c := &c20{obs: map[string]int64{}}
	hh := sha256.New()
	r := det.NewRng(seed)
	res := &det.CaseResult{Prop: "C20", Seed: seed}
	if idx == 0 {
		maxCap := 5
		if tier == "thorough" {
			maxCap = 7
		}
		st := c.exhaustive(maxCap)
		c.obs["c20.exhaustive_states"] = st
		c.obs["c20.exhaustive_max_capacity"] = int64(maxCap)
		hh.Write([]byte(fmt.Sprintf("exhaustive-%d", maxCap)))
		res.Sample = &det.Sample{Seed: "exhaustive", Ops: []string{fmt.Sprintf("every capacity<=%d, fill<=2*capacity+1, at most one resize (to 1..%d) at every position, every (start,count<=capacity+2 or max) and recent(count)", maxCap, maxCap+2)}}
	} else {
		for i := 0; i < 60; i++ {
			c.ringScript(r, hh)
		}
		for i := 0; i < 20; i++ {
			c.storeScript(r)
		}
		if idx%4 == 1 {
			c.streamRun(r)
		}
		rr := det.NewRng(seed)
		cc := &c20{obs: map[string]int64{}}
		sh := sha256.New()
		cc.ringScript(rr, sh)
		res.Sample = &det.Sample{Seed: fmt.Sprintf("%#x", seed), Ops: []string{"first ring script of the case is generated from the seed: capacity 1..12, 3..60 steps of add*k / resize(n) / get(start,count) / recent(count); followed by 59 more, 20 store scripts and (every 4th case) a concurrent stream run"}}
	}
	res.Obs = c.obs
	res.Nontrivial = c.obs["c20.queries_inside"] > 0
	res.Hash = hex.EncodeToString(hh.Sum(nil)[:12])
	for _, v := range c.v {
		res.Violations = append(res.Violations, det.Violation{Prop: "C20", Rule: v.rule, Signature: "C20/" + v.rule + "/" + v.class, Text: v.text})
	}
	return res
}
