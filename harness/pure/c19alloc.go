package pure

import (
	"fmt"
	"sort"
	"strconv"
	"strings"
	"time"

	"github.com/apache/yunikorn-core/pkg/common/configs"
	"github.com/apache/yunikorn-core/pkg/common/resources"
	"github.com/apache/yunikorn-core/pkg/scheduler/objects"
	"github.com/apache/yunikorn-scheduler-interface/lib/go/si"

	"verifharness/res"
)

// allocWorld judges how the scheduling cycle CONSUMES the sorted lists: a real queue tree (root -> parent -> leaves ->
// applications -> asks) and a real node collection with one node that fits everything, no maximum, no limit, no
// predicate: every ask is schedulable, so each Queue.TryAllocate call must hand out exactly the ask the documented
// sort keys put first: a child queue no other pending child strictly precedes, in it an application no other pending
// application strictly precedes, and of that application an ask with the highest priority and, among those, the
// earliest creation time. The keys are read through the exported getters right before every call.
func (c *c19) allocWorld() {
	r := c.r
	qPolicy := []string{"fair", "fifo"}[r.Intn(2)]
	qPrio := []string{"enabled", "disabled", ""}[r.Intn(3)]
	pprops := map[string]string{"application.sort.policy": qPolicy}
	if qPrio != "" {
		pprops["application.sort.priority"] = qPrio
	}
	mapping := objects.NewAppQueueMapping()
	root, err := objects.NewConfiguredQueue(configs.QueueConfig{Name: "root", Parent: true, SubmitACL: "*"}, nil, false, mapping)
	if err != nil {
		return
	}
	root.SetMaxResource(resources.NewResourceFromMap(map[string]resources.Quantity{"memory": 100000, "vcore": 100000}))
	parent, err := objects.NewConfiguredQueue(configs.QueueConfig{Name: "p", Parent: true, Properties: pprops}, root, false, mapping)
	if err != nil {
		return
	}
	nc := objects.NewNodeCollection("default")
	node := objects.NewNode(&si.NodeInfo{NodeID: "n1", Attributes: map[string]string{}, SchedulableResource: res.R{"memory": 100000, "vcore": 100000}.Proto()})
	if nc.AddNode(node) != nil {
		return
	}
	type leafInfo struct {
		q      *objects.Queue
		policy string
		apps   []*objects.Application
	}
	type askKey struct {
		prio   int32
		create int64
	}
	leaves := map[string]*leafInfo{}
	asks := map[string]askKey{}    // allocation key -> keys
	askApp := map[string]string{}  // allocation key -> application
	appLeaf := map[string]string{} // application -> leaf name
	var desc []string
	desc = append(desc, fmt.Sprintf("parent sort=%s prio=%s", qPolicy, qPrio))
	nLeaves := r.Range(1, 4)
	total := 0
	for i := 0; i < nLeaves; i++ {
		aPolicy := []string{"fair", "fifo", "fifo"}[r.Intn(3)]
		aPrio := []string{"enabled", "disabled", ""}[r.Intn(3)]
		props := map[string]string{"application.sort.policy": aPolicy}
		if aPrio != "" {
			props["application.sort.priority"] = aPrio
		}
		if r.Chance(250) {
			props["priority.offset"] = strconv.Itoa(r.Range(-2, 2))
		}
		qc := configs.QueueConfig{Name: fmt.Sprintf("c%d", i), Properties: props}
		if r.Chance(500) {
			qc.Resources.Guaranteed = map[string]string{"memory": strconv.Itoa(r.Range(1, 12)), "vcore": strconv.Itoa(r.Range(1, 12))}
		}
		q, err := objects.NewConfiguredQueue(qc, parent, false, mapping)
		if err != nil {
			continue
		}
		li := &leafInfo{q: q, policy: aPolicy}
		leaves[qc.Name] = li
		desc = append(desc, fmt.Sprintf("%s sort=%s prio=%s props=%v guaranteed=%v", qc.Name, aPolicy, aPrio, props, qc.Resources.Guaranteed))
		for a := 0; a < r.Range(1, 3); a++ {
			appSeq++
			id := fmt.Sprintf("app-%d", appSeq)
			app := newApp(id, q.GetQueuePath(), q)
			li.apps = append(li.apps, app)
			appLeaf[id] = qc.Name
			for k := 0; k < r.Range(1, 4); k++ {
				key := fmt.Sprintf("%s-k%d", id, k)
				ak := askKey{int32(r.Range(0, 2)), int64(1700000000 + r.Intn(4))}
				sz := res.R{"memory": int64(r.Range(1, 3))}
				if r.Chance(600) {
					sz["vcore"] = int64(r.Range(1, 3))
				}
				if app.AddAllocationAsk(newAsk(id, key, sz, ak.prio, ak.create)) == nil {
					asks[key] = ak
					askApp[key] = id
					total++
					desc = append(desc, fmt.Sprintf("%s prio=%d create=%d size=%s", key, ak.prio, ak.create, sz))
				}
			}
			// submission times of applications created in the same nanosecond tick would tie: keep them apart
			time.Sleep(time.Microsecond)
		}
	}
	c.h.Write([]byte(strings.Join(desc, ";")))
	c.obs["c19.alloc_worlds"]++
	pendingAsks := func(app string) []string {
		var out []string
		for key, a := range askApp {
			if a == app {
				out = append(out, key)
			}
		}
		sort.Strings(out)
		return out
	}
	var history []string
	for step := 0; step < total+2; step++ {
		// --- keys before the call
		considerQPrio := parent.IsPrioritySortEnabled()
		type qkeys struct {
			prio                       int32
			alloc, guar, fairMax, pend *resources.Resource
		}
		qk := map[string]qkeys{}
		for name, li := range leaves {
			if resources.StrictlyGreaterThanZero(li.q.GetPendingResource()) {
				qk[name] = qkeys{li.q.GetCurrentPriority(), li.q.GetAllocatedResource(), li.q.GetGuaranteedResource(), li.q.GetFairMaxResource(), li.q.GetPendingResource()}
			}
		}
		qBefore := func(x, y string) bool {
			a, b := qk[x], qk[y]
			pendGreater := func() bool {
				return resources.StrictlyGreaterThan(resources.Sub(a.pend, b.pend), resources.Zero)
			}
			if qPolicy == "fair" {
				comp := resources.CompUsageRatioSeparately(a.alloc, a.guar, a.fairMax, b.alloc, b.guar, b.fairMax)
				if considerQPrio {
					if a.prio != b.prio {
						return a.prio > b.prio
					}
					if comp != 0 {
						return comp < 0
					}
					return pendGreater()
				}
				if comp != 0 {
					return comp < 0
				}
				if a.prio != b.prio {
					return a.prio > b.prio
				}
				return pendGreater()
			}
			if considerQPrio {
				return a.prio > b.prio
			}
			return false
		}
		type akeys struct {
			prio  int32
			sub   time.Time
			alloc *resources.Resource
		}
		ak := map[string]akeys{}
		for _, li := range leaves {
			for _, app := range li.apps {
				if resources.StrictlyGreaterThanZero(app.GetPendingResource()) {
					ak[app.ApplicationID] = akeys{app.GetAskMaxPriority(), app.GetSubmissionTime(), app.GetAllocatedResource()}
				}
			}
		}
		aBefore := func(li *leafInfo, x, y string) bool {
			a, b := ak[x], ak[y]
			considerPrio := li.q.IsPrioritySortEnabled()
			if li.policy == "fair" {
				comp := resources.CompUsageRatio(a.alloc, b.alloc, li.q.GetGuaranteedResource())
				if considerPrio {
					if a.prio != b.prio {
						return a.prio > b.prio
					}
					return comp < 0
				}
				if comp != 0 {
					return comp < 0
				}
				return a.prio > b.prio
			}
			if considerPrio {
				if a.prio != b.prio {
					return a.prio > b.prio
				}
				return a.sub.Before(b.sub)
			}
			if !a.sub.Equal(b.sub) {
				return a.sub.Before(b.sub)
			}
			return a.prio > b.prio
		}
		// --- the call
		result := root.TryAllocate(nc.GetNodeIterator, nc.GetFullNodeIterator, nc.GetNode, false)
		c.obs["c19.alloc_calls"]++
		world := func() string { return strings.Join(desc, "; ") + " | allocated so far: " + strings.Join(history, ",") }
		if result == nil || result.Request == nil {
			if len(askApp) > 0 {
				c.bad("alloc-starved", "any", "TryAllocate returned nothing although %d asks are pending, everything fits and nothing is limited; world: %s", len(askApp), world())
			}
			return
		}
		key := result.Request.GetAllocationKey()
		appID, known := askApp[key]
		if !known || result.ResultType != objects.Allocated {
			c.bad("alloc-unexpected-result", "any", "TryAllocate returned %s for %s which is not a pending ask of this world (or not a plain allocation); world: %s", result.ResultType, key, world())
			return
		}
		c.obs["c19.alloc_decisions"]++
		leafName := appLeaf[appID]
		li := leaves[leafName]
		// queue level
		for other := range qk {
			if other != leafName && qBefore(other, leafName) {
				cls := qPolicy
				if considerQPrio {
					cls += "+priority"
				}
				// same test as in queueWorld: when the keys do not form a strict weak order on this set of queues the
				// violation is the known partial tie-break defect of the fair queue sort, not a new one
				var names []string
				for n := range qk {
					names = append(names, n)
				}
				weak := true
				for _, x := range names {
					for _, y := range names {
						for _, z := range names {
							if x == y || y == z || x == z {
								continue
							}
							if qBefore(x, y) && qBefore(y, z) && !qBefore(x, z) {
								weak = false
							}
							if !qBefore(x, y) && !qBefore(y, x) && !qBefore(y, z) && !qBefore(z, y) && (qBefore(x, z) || qBefore(z, x)) {
								weak = false
							}
						}
					}
				}
				if !weak {
					cls += "+partial-tiebreak"
				}
				c.bad("alloc-queue-order", cls, "TryAllocate served queue %s (prio %d allocated %s guaranteed %s pending %s) although the policy (%s, priority %v) orders pending queue %s (prio %d allocated %s guaranteed %s pending %s) strictly first; world: %s",
					leafName, qk[leafName].prio, res.From(qk[leafName].alloc), res.From(qk[leafName].guar), res.From(qk[leafName].pend), qPolicy, considerQPrio,
					other, qk[other].prio, res.From(qk[other].alloc), res.From(qk[other].guar), res.From(qk[other].pend), world())
				return
			}
		}
		if len(qk) > 1 {
			c.obs["c19.alloc_queue_choices"]++
		}
		// application level
		napps := 0
		for _, app := range li.apps {
			other := app.ApplicationID
			if _, pending := ak[other]; !pending {
				continue
			}
			napps++
			if other != appID && aBefore(li, other, appID) {
				cls := li.policy
				if li.q.IsPrioritySortEnabled() {
					cls += "+priority"
				}
				c.bad("alloc-app-order", cls, "TryAllocate served application %s (ask prio %d, allocated %s) in %s although the policy (%s, priority %v) orders pending application %s (ask prio %d, allocated %s) strictly first; world: %s",
					appID, ak[appID].prio, res.From(ak[appID].alloc), leafName, li.policy, li.q.IsPrioritySortEnabled(), other, ak[other].prio, res.From(ak[other].alloc), world())
				return
			}
		}
		if napps > 1 {
			c.obs["c19.alloc_app_choices"]++
		}
		// ask level
		mine := asks[key]
		pend := pendingAsks(appID)
		for _, other := range pend {
			o := asks[other]
			if other != key && (o.prio > mine.prio || (o.prio == mine.prio && o.create < mine.create)) {
				c.bad("alloc-ask-order", "any", "application %s got ask %s (prio %d create %d) allocated before its pending ask %s (prio %d create %d); world: %s", appID, key, mine.prio, mine.create, other, o.prio, o.create, world())
				return
			}
		}
		if len(pend) > 1 {
			c.obs["c19.alloc_ask_choices"]++
		}
		delete(askApp, key)
		history = append(history, key)
	}
	if len(askApp) > 0 {
		c.bad("alloc-starved", "leftover", "%d asks never allocated after %d calls; world: %s", len(askApp), total+2, strings.Join(desc, "; "))
	}
}
