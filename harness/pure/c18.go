// Package pure holds the reference-model monitors for the pure packages of the core (resources, events, sorters,
// configuration validation): the real functions are run on seeded inputs next to a small independent reference.
package pure

import (
	"crypto/sha256"
	"encoding/hex"
	"fmt"
	"math"
	"math/big"
	"regexp"
	"sort"
	"strings"

	"github.com/apache/yunikorn-core/pkg/common/resources"

	"verifharness/det"
)

type viol struct{ rule, class, text string }

type c18 struct {
	r    *det.Rng
	v    []viol
	obs  map[string]int64
	nont bool
	h    interface{ Write([]byte) (int, error) }
}

var keyPool = []string{"memory", "vcore", "gpu", "pods"}

var extremes = []int64{0, 1, -1, 2, -2, 7, 1 << 31, -(1 << 31), 1 << 62, -(1 << 62), math.MaxInt64, math.MaxInt64 - 1, math.MinInt64, math.MinInt64 + 1, 1 << 53, (1 << 53) + 1}

func (c *c18) val() int64 {
	switch c.r.Intn(10) {
	case 0, 1, 2:
		c.nont = true
		return extremes[c.r.Intn(len(extremes))]
	case 3:
		return int64(c.r.U64())
	case 4:
		return int64(c.r.U64() >> uint(c.r.Intn(64)))
	case 5:
		return -int64(c.r.U64() >> uint(1+c.r.Intn(63)))
	default:
		return int64(c.r.Intn(20)) - 4
	}
}

// gen returns a resource (possibly nil) and its plain copy.
func (c *c18) gen() (*resources.Resource, map[string]int64, bool) {
	if c.r.Chance(80) {
		return nil, nil, true
	}
	m := map[string]resources.Quantity{}
	plain := map[string]int64{}
	n := c.r.Intn(5)
	for i := 0; i < n; i++ {
		k := keyPool[c.r.Intn(len(keyPool))]
		v := c.val()
		m[k] = resources.Quantity(v)
		plain[k] = v
	}
	return resources.NewResourceFromMap(m), plain, false
}

func plainOf(r *resources.Resource) map[string]int64 {
	if r == nil {
		return nil
	}
	out := map[string]int64{}
	for k, v := range r.Resources {
		out[k] = int64(v)
	}
	return out
}

func fmtPlain(m map[string]int64, isNil bool) string {
	if isNil || m == nil {
		return "nil"
	}
	keys := make([]string, 0, len(m))
	for k := range m {
		keys = append(keys, k)
	}
	sort.Strings(keys)
	var b strings.Builder
	b.WriteString("{")
	for i, k := range keys {
		if i > 0 {
			b.WriteString(",")
		}
		fmt.Fprintf(&b, "%s:%d", k, m[k])
	}
	b.WriteString("}")
	return b.String()
}

func samePlain(a, b map[string]int64) bool {
	if len(a) != len(b) {
		return false
	}
	for k, v := range a {
		if w, ok := b[k]; !ok || w != v {
			return false
		}
	}
	return true
}

var (
	bigMax = big.NewInt(math.MaxInt64)
	bigMin = big.NewInt(math.MinInt64)
)

func clamp(x *big.Int) int64 {
	if x.Cmp(bigMax) > 0 {
		return math.MaxInt64
	}
	if x.Cmp(bigMin) < 0 {
		return math.MinInt64
	}
	return x.Int64()
}

func bAdd(a, b int64) int64 { return clamp(new(big.Int).Add(big.NewInt(a), big.NewInt(b))) }
func bSub(a, b int64) int64 { return clamp(new(big.Int).Sub(big.NewInt(a), big.NewInt(b))) }
func bMul(a, b int64) int64 { return clamp(new(big.Int).Mul(big.NewInt(a), big.NewInt(b))) }

func classOf(vals ...int64) string {
	for _, v := range vals {
		if v == math.MinInt64 {
			return "minint64"
		}
	}
	for _, v := range vals {
		if v == math.MaxInt64 {
			return "maxint64"
		}
	}
	for _, v := range vals {
		if v > 1<<61 || v < -(1<<61) {
			return "huge"
		}
	}
	return "ordinary"
}

func (c *c18) bad(rule, class, f string, a ...interface{}) {
	if len(c.v) < 50 {
		c.v = append(c.v, viol{rule, class, fmt.Sprintf(f, a...)})
	}
}

// safe calls f and reports a panic as a violation.
func (c *c18) safe(name string, desc func() string, f func()) (ok bool) {
	defer func() {
		if r := recover(); r != nil {
			c.bad("panic/"+name, "nil-or-any", "%s panicked on %s: %v", name, desc(), r)
			ok = false
		}
	}()
	f()
	return true
}

func (c *c18) binaryExact(name string, keysOf func(l, r map[string]int64, lnil, rnil bool) []string, op func(a, b int64) int64, call func(l, r *resources.Resource) *resources.Resource, post func(v int64) int64) {
	l, lp, lnil := c.gen()
	r, rp, rnil := c.gen()
	desc := func() string { return fmtPlain(lp, lnil) + " , " + fmtPlain(rp, rnil) }
	c.h.Write([]byte(name + desc()))
	var out *resources.Resource
	if !c.safe(name, desc, func() { out = call(l, r) }) {
		return
	}
	c.obs["c18.evaluations"]++
	c.obs["c18."+name]++
	if !samePlain(plainOf(l), lp) && !lnil || !samePlain(plainOf(r), rp) && !rnil {
		c.bad("argument-modified/"+name, "any", "%s modified an argument: before %s after %s , %s", name, desc(), fmtPlain(plainOf(l), lnil), fmtPlain(plainOf(r), rnil))
	}
	if out == nil {
		c.bad("nil-result/"+name, "any", "%s returned nil for %s", name, desc())
		return
	}
	got := plainOf(out)
	keys := keysOf(lp, rp, lnil, rnil)
	if lnil && (name == "AddTo" || name == "SubFrom") {
		keys = nil // a nil receiver does not change
	}
	want := map[string]int64{}
	for _, k := range keys {
		v := op(lp[k], rp[k])
		if post != nil {
			v = post(v)
		}
		want[k] = v
	}
	for _, k := range keys {
		g, ok := got[k]
		if _, inRight := rp[k]; !inRight && post != nil && ok && (g == lp[k] || g == want[k]) {
			continue // the documentation is ambiguous for a negative value that is not touched by the subtraction
		}
		if !ok {
			if want[k] != 0 {
				c.bad("wrong-value/"+name, classOf(lp[k], rp[k]), "%s(%s)[%s] is missing, exact result %d", name, desc(), k, want[k])
			}
			continue
		}
		if g != want[k] {
			c.bad("wrong-value/"+name, classOf(lp[k], rp[k]), "%s(%s)[%s] = %d, exact (clamped) result is %d", name, desc(), k, g, want[k])
		}
	}
	for k, g := range got {
		if _, ok := want[k]; !ok && g != 0 {
			c.bad("extra-key/"+name, "any", "%s(%s) has unexpected type %s=%d", name, desc(), k, g)
		}
	}
}

func unionKeys(l, r map[string]int64, lnil, rnil bool) []string {
	seen := map[string]bool{}
	var out []string
	for k := range l {
		if !seen[k] {
			seen[k] = true
			out = append(out, k)
		}
	}
	for k := range r {
		if !seen[k] {
			seen[k] = true
			out = append(out, k)
		}
	}
	return out
}

func leftKeys(l, r map[string]int64, lnil, rnil bool) []string {
	var out []string
	for k := range l {
		out = append(out, k)
	}
	return out
}

func (c *c18) predicate(name string, call func(l, r *resources.Resource) bool, ref func(l, r map[string]int64, lnil, rnil bool) int) {
	l, lp, lnil := c.gen()
	r, rp, rnil := c.gen()
	// make shared keys and near-equal values likely
	if !lnil && !rnil && c.r.Chance(500) {
		for k, v := range lp {
			if c.r.Chance(600) {
				d := int64(c.r.Intn(3)) - 1
				nv := v
				if (d > 0 && v < math.MaxInt64) || (d < 0 && v > math.MinInt64) {
					nv = v + d
				}
				rp[k] = nv
				r.Resources[k] = resources.Quantity(nv)
			}
		}
	}
	desc := func() string { return fmtPlain(lp, lnil) + " , " + fmtPlain(rp, rnil) }
	c.h.Write([]byte(name + desc()))
	var got bool
	if !c.safe(name, desc, func() { got = call(l, r) }) {
		return
	}
	c.obs["c18.evaluations"]++
	c.obs["c18."+name]++
	if !lnil && !samePlain(plainOf(l), lp) || !rnil && !samePlain(plainOf(r), rp) {
		c.bad("argument-modified/"+name, "any", "%s modified an argument %s", name, desc())
	}
	want := ref(lp, rp, lnil, rnil) // 1 must be true, 0 must be false, -1 either
	if want == 1 && !got {
		c.bad("predicate/"+name, "must-be-true", "%s(%s) = false, by its documented component-wise definition it must be true", name, desc())
	}
	if want == 0 && got {
		c.bad("predicate/"+name, "must-be-false", "%s(%s) = true, by its documented component-wise definition it must be false", name, desc())
	}
	if want == -1 {
		c.obs["c18.undetermined_by_doc"]++
	}
}

func b2i(b bool) int {
	if b {
		return 1
	}
	return 0
}

var quantityRe = regexp.MustCompile(`^([0-9]+)[ \t\n\f\r\v]*([a-zA-Z]*)$`)

var mult = map[string]*big.Int{
	"": big.NewInt(1), "k": big.NewInt(1e3), "M": big.NewInt(1e6), "G": big.NewInt(1e9), "T": big.NewInt(1e12), "P": big.NewInt(1e15), "E": big.NewInt(1e18),
	"Ki": big.NewInt(1 << 10), "Mi": big.NewInt(1 << 20), "Gi": big.NewInt(1 << 30), "Ti": big.NewInt(1 << 40), "Pi": big.NewInt(1 << 50), "Ei": big.NewInt(1 << 60),
}

func (c *c18) genQuantityString() string {
	r := c.r
	var b strings.Builder
	if r.Chance(100) {
		b.WriteString([]string{" ", "\t", "+", "-", "0x", "."}[r.Intn(6)])
	}
	nd := r.Range(1, 22)
	if r.Chance(600) {
		nd = r.Range(1, 6)
	}
	if r.Chance(150) {
		b.WriteString("000")
	}
	for i := 0; i < nd; i++ {
		b.WriteByte(byte('0' + r.Intn(10)))
	}
	if r.Chance(150) {
		// near the int64 boundary
		b.Reset()
		b.WriteString([]string{"9223372036854775807", "9223372036854775808", "9007199254740993", "9223372036854775", "9223372036854776", "8388607", "8388608", "8", "7", "9223372036854", "9223372036855"}[r.Intn(11)])
	}
	if r.Chance(100) {
		b.WriteString([]string{" ", "  ", "\t", ".5", "e3", "_"}[r.Intn(6)])
	}
	suffixes := []string{"", "", "", "k", "M", "G", "T", "P", "E", "Ki", "Mi", "Gi", "Ti", "Pi", "Ei", "m", "K", "mi", "ki", "Zi", "i", "kk", "Б", "µ"}
	b.WriteString(suffixes[r.Intn(len(suffixes))])
	if r.Chance(60) {
		b.WriteString([]string{" ", "x", "\n"}[r.Intn(3)])
	}
	return b.String()
}

func (c *c18) parseCheck() {
	s := c.genQuantityString()
	milli := c.r.Chance(500)
	name := "ParseQuantity"
	if milli {
		name = "ParseVCore"
	}
	c.h.Write([]byte(name + s))
	var got resources.Quantity
	var err error
	if !c.safe(name, func() string { return fmt.Sprintf("%q", s) }, func() {
		if milli {
			got, err = resources.ParseVCore(s)
		} else {
			got, err = resources.ParseQuantity(s)
		}
	}) {
		return
	}
	c.obs["c18.evaluations"]++
	c.obs["c18."+name]++
	// reference: exact value or "not a quantity"
	t := strings.TrimSpace(s)
	m := quantityRe.FindStringSubmatch(t)
	var exact *big.Int
	if m != nil {
		n, _ := new(big.Int).SetString(m[1], 10)
		suf := m[2]
		if suf == "m" && milli {
			exact = n
		} else if mu, ok := mult[suf]; ok {
			exact = new(big.Int).Mul(n, mu)
			if milli {
				exact.Mul(exact, big.NewInt(1000))
			}
		}
	}
	if err == nil {
		c.obs["c18.parse_accepted"]++
		if exact == nil {
			c.bad("parse-accepts-garbage/"+name, "grammar", "%s(%q) = %d, the string is not in the quantity grammar", name, s, got)
			return
		}
		if !exact.IsInt64() {
			c.bad("parse-overflow/"+name, "overflow", "%s(%q) = %d, the exact value %s does not fit in int64", name, s, got, exact.String())
			return
		}
		if exact.Int64() != int64(got) {
			c.bad("parse-wrong-value/"+name, "value", "%s(%q) = %d, exact value %s", name, s, got, exact.String())
		}
		if exact.BitLen() > 40 {
			c.nont = true
		}
	} else {
		c.obs["c18.parse_rejected"]++
		if got != 0 {
			c.bad("parse-error-with-value/"+name, "value", "%s(%q) returned error %v and a non-zero value %d", name, s, err, got)
		}
		if exact != nil && exact.IsInt64() {
			// the documented grammar accepts this string: refusing it is not a truncation/overflow, so only a diagnostic
			c.obs["c18.parse_rejected_in_grammar"]++
		}
	}
}

// RunC18 runs one case: a fixed number of evaluations determined by the seed.
func RunC18(seed uint64, n int) *det.CaseResult {
	hh := sha256.New()
	c := &c18{r: det.NewRng(seed), obs: map[string]int64{}, h: hh}
	sub := resources.Sub
	for i := 0; i < n; i++ {
		switch c.r.Intn(26) {
		case 0:
			c.binaryExact("Add", unionKeys, bAdd, resources.Add, nil)
		case 1, 2:
			c.binaryExact("Sub", unionKeys, bSub, sub, nil)
		case 3:
			c.binaryExact("AddTo", unionKeys, bAdd, func(l, r *resources.Resource) *resources.Resource {
				if l == nil {
					l.AddTo(r)
					return resources.NewResource()
				}
				x := l.Clone()
				x.AddTo(r)
				return x
			}, nil)
		case 4:
			c.binaryExact("SubFrom", unionKeys, bSub, func(l, r *resources.Resource) *resources.Resource {
				if l == nil {
					l.SubFrom(r)
					return resources.NewResource()
				}
				x := l.Clone()
				x.SubFrom(r)
				return x
			}, nil)
		case 5:
			c.binaryExact("SubOnlyExisting", leftKeys, bSub, func(l, r *resources.Resource) *resources.Resource {
				out := resources.SubOnlyExisting(l, r)
				if out == nil && l == nil {
					return resources.NewResource()
				}
				return out
			}, nil)
		case 6:
			c.binaryExact("AddOnlyExisting", leftKeys, bAdd, func(l, r *resources.Resource) *resources.Resource {
				out := resources.AddOnlyExisting(l, r)
				if out == nil && l == nil {
					return resources.NewResource()
				}
				return out
			}, nil)
		case 7:
			c.binaryExact("SubEliminateNegative", unionKeys, bSub, resources.SubEliminateNegative, func(v int64) int64 {
				if v < 0 {
					return 0
				}
				return v
			})
		case 8:
			c.binaryExact("SubErrorNegative", unionKeys, bSub, func(l, r *resources.Resource) *resources.Resource {
				out, _ := resources.SubErrorNegative(l, r)
				return out
			}, func(v int64) int64 {
				if v < 0 {
					return 0
				}
				return v
			})
		case 9:
			c.multiply()
		case 10:
			c.multiplyBy()
		case 11:
			c.predicate("FitIn", func(l, r *resources.Resource) bool { return l.FitIn(r) }, func(l, r map[string]int64, lnil, rnil bool) int {
				for k, v := range r {
					lv := l[k]
					if lv < 0 {
						lv = 0
					}
					if v > lv {
						return 0
					}
				}
				return 1
			})
		case 12:
			c.predicate("FitInMaxUndef", func(l, r *resources.Resource) bool { return l.FitInMaxUndef(r) }, func(l, r map[string]int64, lnil, rnil bool) int {
				for k, v := range r {
					lv, ok := l[k]
					if !ok {
						continue
					}
					if lv < 0 {
						lv = 0
					}
					if v > lv {
						return 0
					}
				}
				return 1
			})
		case 13:
			c.predicate("FitInActual", func(l, r *resources.Resource) bool { return l.FitInActual(r) }, func(l, r map[string]int64, lnil, rnil bool) int {
				for k, v := range r {
					lv, ok := l[k]
					if !ok {
						continue
					}
					if v > lv {
						return 0
					}
				}
				return 1
			})
		case 14:
			c.predicate("StrictlyGreaterThan", resources.StrictlyGreaterThan, func(l, r map[string]int64, lnil, rnil bool) int {
				ne := false
				for _, k := range unionKeys(l, r, lnil, rnil) {
					if l[k] < r[k] {
						return 0
					}
					if l[k] != r[k] {
						ne = true
					}
				}
				return b2i(ne)
			})
		case 15:
			c.predicate("StrictlyGreaterThanOrEquals", resources.StrictlyGreaterThanOrEquals, func(l, r map[string]int64, lnil, rnil bool) int {
				for _, k := range unionKeys(l, r, lnil, rnil) {
					if l[k] < r[k] {
						return 0
					}
				}
				return 1
			})
		case 16:
			c.predicate("StrictlyGreaterThanOrEqualsOnlyExisting", func(l, r *resources.Resource) bool { return l.StrictlyGreaterThanOrEqualsOnlyExisting(r) }, func(l, r map[string]int64, lnil, rnil bool) int {
				shared := 0
				for k, lv := range l {
					if rv, ok := r[k]; ok {
						shared++
						if rv > lv {
							return 0
						}
					}
				}
				if shared > 0 {
					return 1
				}
				return -1 // documentation is silent on disjoint / empty operands
			})
		case 17:
			c.predicate("StrictlyGreaterThanOnlyExisting", func(l, r *resources.Resource) bool { return l.StrictlyGreaterThanOnlyExisting(r) }, func(l, r map[string]int64, lnil, rnil bool) int {
				shared, allGreater, allEqual := 0, true, true
				for k, lv := range l {
					if rv, ok := r[k]; ok {
						shared++
						if rv > lv {
							return 0
						}
						if rv == lv {
							allGreater = false
						} else {
							allEqual = false
						}
					}
				}
				if shared == 0 {
					return -1
				}
				if allEqual {
					return 0
				}
				if allGreater {
					return 1
				}
				return -1
			})
		case 18:
			c.compMinMax(true)
		case 19:
			c.compMinMax(false)
		case 20:
			c.predicate("Equals", resources.Equals, func(l, r map[string]int64, lnil, rnil bool) int {
				if lnil && rnil {
					return 1
				}
				if lnil || rnil {
					return 0
				}
				for _, k := range unionKeys(l, r, lnil, rnil) {
					if l[k] != r[k] {
						return 0
					}
				}
				return 1
			})
		case 21:
			c.predicate("DeepEquals", resources.DeepEquals, func(l, r map[string]int64, lnil, rnil bool) int {
				if lnil && rnil {
					return 1
				}
				if lnil || rnil {
					return 0
				}
				return b2i(samePlain(l, r))
			})
		case 22:
			c.predicate("EqualsOrEmpty", resources.EqualsOrEmpty, func(l, r map[string]int64, lnil, rnil bool) int {
				zero := func(m map[string]int64) bool {
					for _, v := range m {
						if v != 0 {
							return false
						}
					}
					return true
				}
				if zero(l) && zero(r) {
					return 1
				}
				if lnil || rnil {
					return 0
				}
				for _, k := range unionKeys(l, r, lnil, rnil) {
					if l[k] != r[k] {
						return 0
					}
				}
				return 1
			})
		case 23:
			c.unary()
		case 24:
			c.predicate("MatchAny", func(l, r *resources.Resource) bool { return l.MatchAny(r) }, func(l, r map[string]int64, lnil, rnil bool) int {
				if lnil || rnil {
					return 0
				}
				for k := range l {
					if _, ok := r[k]; ok {
						return 1
					}
				}
				return 0
			})
		default:
			c.parseCheck()
		}
	}
	res := &det.CaseResult{Prop: "C18", Seed: seed, Obs: c.obs, Nontrivial: c.nont, Steps: n}
	res.Hash = hex.EncodeToString(hh.Sum(nil)[:12])
	for _, v := range c.v {
		res.Violations = append(res.Violations, det.Violation{Prop: "C18", Rule: v.rule, Signature: "C18/" + v.rule + "/" + v.class, Text: v.text})
	}
	res.Sample = &det.Sample{Seed: fmt.Sprintf("%#x", seed), Ops: c.sample()}
	return res
}

func (c *c18) compMinMax(isMin bool) {
	l, lp, lnil := c.gen()
	r, rp, rnil := c.gen()
	name := "ComponentWiseMax"
	if isMin {
		name = "ComponentWiseMin"
	}
	desc := func() string { return fmtPlain(lp, lnil) + " , " + fmtPlain(rp, rnil) }
	c.h.Write([]byte(name + desc()))
	var out *resources.Resource
	if !c.safe(name, desc, func() {
		if isMin {
			out = resources.ComponentWiseMin(l, r)
		} else {
			out = resources.ComponentWiseMax(l, r)
		}
	}) {
		return
	}
	c.obs["c18.evaluations"]++
	c.obs["c18."+name]++
	if !lnil && !samePlain(plainOf(l), lp) || !rnil && !samePlain(plainOf(r), rp) {
		c.bad("argument-modified/"+name, "any", "%s modified an argument %s", name, desc())
	}
	want := map[string]int64{}
	if isMin {
		// a type missing from one side takes the value of the other side; nil behaves like "missing everywhere"
		for _, k := range unionKeys(lp, rp, lnil, rnil) {
			lv, lok := lp[k]
			rv, rok := rp[k]
			switch {
			case lok && rok:
				if lv < rv {
					want[k] = lv
				} else {
					want[k] = rv
				}
			case lok:
				want[k] = lv
			default:
				want[k] = rv
			}
		}
		if lnil && rnil {
			if out != nil {
				c.bad("wrong-value/"+name, "nil", "%s(nil,nil) must be nil, got %v", name, plainOf(out))
			}
			return
		}
	} else {
		if lnil || rnil {
			if out == nil || !samePlain(map[string]int64{}, dropZero(plainOf(out))) {
				c.bad("wrong-value/"+name, "nil", "%s with a nil argument must be a zero resource, got %v for %s", name, plainOf(out), desc())
			}
			return
		}
		for _, k := range unionKeys(lp, rp, lnil, rnil) {
			lv, rv := lp[k], rp[k] // missing = 0
			if lv > rv {
				want[k] = lv
			} else {
				want[k] = rv
			}
		}
	}
	if out == nil {
		c.bad("nil-result/"+name, "any", "%s returned nil for %s", name, desc())
		return
	}
	got := plainOf(out)
	if !samePlain(got, want) {
		c.bad("wrong-value/"+name, "any", "%s(%s) = %s, component-wise definition gives %s", name, desc(), fmtPlain(got, false), fmtPlain(want, false))
	}
}

func dropZero(m map[string]int64) map[string]int64 {
	out := map[string]int64{}
	for k, v := range m {
		if v != 0 {
			out[k] = v
		}
	}
	return out
}

func (c *c18) multiply() {
	l, lp, lnil := c.gen()
	ratio := c.val()
	desc := func() string { return fmt.Sprintf("%s * %d", fmtPlain(lp, lnil), ratio) }
	c.h.Write([]byte("Multiply" + desc()))
	var out *resources.Resource
	if !c.safe("Multiply", desc, func() { out = resources.Multiply(l, ratio) }) {
		return
	}
	c.obs["c18.evaluations"]++
	c.obs["c18.Multiply"]++
	if !lnil && !samePlain(plainOf(l), lp) {
		c.bad("argument-modified/Multiply", "any", "Multiply modified its argument %s", desc())
	}
	if out == nil {
		c.bad("nil-result/Multiply", "any", "Multiply returned nil for %s", desc())
		return
	}
	got := plainOf(out)
	for k, v := range lp {
		want := bMul(v, ratio)
		if got[k] != want {
			c.bad("wrong-value/Multiply", classOf(v, ratio), "Multiply(%s)[%s] = %d, exact (clamped) result is %d", desc(), k, got[k], want)
		}
	}
}

func (c *c18) multiplyBy() {
	l, lp, lnil := c.gen()
	ratios := []float64{0, 1, -1, 0.5, 2, 1.5, -2.5, 1e-9, 1e9, 1e19, -1e19, 3, 0.1, 4, 8, 1024, 0.25}
	ratio := ratios[c.r.Intn(len(ratios))]
	if c.r.Chance(300) {
		ratio = float64(c.r.Intn(2000)-1000) / 64
	}
	inPlace := c.r.Chance(400)
	name := "MultiplyBy"
	if inPlace {
		name = "MultiplyTo"
	}
	desc := func() string { return fmt.Sprintf("%s * %g", fmtPlain(lp, lnil), ratio) }
	c.h.Write([]byte(name + desc()))
	var out *resources.Resource
	if !c.safe(name, desc, func() {
		if inPlace {
			if l == nil {
				l.MultiplyTo(ratio)
				out = resources.NewResource()
			} else {
				out = l.Clone()
				out.MultiplyTo(ratio)
			}
		} else {
			out = resources.MultiplyBy(l, ratio)
		}
	}) {
		return
	}
	c.obs["c18.evaluations"]++
	c.obs["c18."+name]++
	if !lnil && !samePlain(plainOf(l), lp) {
		c.bad("argument-modified/"+name, "any", "%s modified its argument %s", name, desc())
	}
	if out == nil {
		c.bad("nil-result/"+name, "any", "%s returned nil for %s", name, desc())
		return
	}
	got := plainOf(out)
	rr := new(big.Rat)
	rr.SetFloat64(ratio)
	for k, v := range lp {
		exact := new(big.Rat).Mul(new(big.Rat).SetInt64(v), rr)
		// the exact product, as a clamped integer interval [floor-1, ceil+1] widened by the float64 rounding of the product
		fl := new(big.Int).Quo(exact.Num(), exact.Denom())
		tol := new(big.Int).Abs(fl)
		tol.Rsh(tol, 51) // relative float64 rounding error of the product
		tol.Add(tol, big.NewInt(2))
		lo := clamp(new(big.Int).Sub(fl, tol))
		hi := clamp(new(big.Int).Add(fl, tol))
		g := got[k]
		if g < lo || g > hi {
			c.bad("wrong-value/"+name, classOf(v), "%s(%s)[%s] = %d, exact product %s (accepted range %d..%d)", name, desc(), k, g, exact.FloatString(1), lo, hi)
		}
	}
}

func (c *c18) unary() {
	l, lp, lnil := c.gen()
	desc := func() string { return fmtPlain(lp, lnil) }
	c.h.Write([]byte("unary" + desc()))
	var z, gz, neg bool
	var cl *resources.Resource
	if !c.safe("IsZero/StrictlyGreaterThanZero/HasNegativeValue/Clone", desc, func() {
		z = resources.IsZero(l)
		gz = resources.StrictlyGreaterThanZero(l)
		neg = l.HasNegativeValue()
		cl = l.Clone()
		_ = l.IsEmpty()
		_ = l.String()
		_ = l.DAOMap()
		_ = l.ToProto()
	}) {
		return
	}
	c.obs["c18.evaluations"]++
	c.obs["c18.unary"]++
	wz, wneg, wpos := true, false, false
	for _, v := range lp {
		if v != 0 {
			wz = false
		}
		if v < 0 {
			wneg = true
		}
		if v > 0 {
			wpos = true
		}
	}
	if z != wz {
		c.bad("predicate/IsZero", "any", "IsZero(%s) = %v", desc(), z)
	}
	if neg != wneg {
		c.bad("predicate/HasNegativeValue", "any", "HasNegativeValue(%s) = %v", desc(), neg)
	}
	if gz != (wpos && !wneg && !lnil) {
		c.bad("predicate/StrictlyGreaterThanZero", "any", "StrictlyGreaterThanZero(%s) = %v", desc(), gz)
	}
	if !lnil && (cl == nil || !samePlain(plainOf(cl), lp)) {
		c.bad("wrong-value/Clone", "any", "Clone(%s) = %v", desc(), plainOf(cl))
	}
	if !lnil && !samePlain(plainOf(l), lp) {
		c.bad("argument-modified/unary", "any", "a read-only function modified %s", desc())
	}
}

func (c *c18) sample() []string {
	r := det.NewRng(c.r.U64())
	cc := &c18{r: r, obs: map[string]int64{}, h: sha256.New()}
	var out []string
	for i := 0; i < 6; i++ {
		_, lp, lnil := cc.gen()
		_, rp, rnil := cc.gen()
		out = append(out, "operands: "+fmtPlain(lp, lnil)+" , "+fmtPlain(rp, rnil))
	}
	for i := 0; i < 6; i++ {
		out = append(out, fmt.Sprintf("quantity string: %q", cc.genQuantityString()))
	}
	return out
}
