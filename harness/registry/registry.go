// Package registry wires the engines to the driver.
package registry

import (
	"os"
	"runtime"
	"strconv"
	"time"

	"verifharness/conc"

	"verifharness/pure"

	"verifharness/det"
	"verifharness/driver"
)

func detRunner(prop string, seed uint64, idx int, tier string, replayDir string, cmdLog *os.File) *det.CaseResult {
	return det.RunCase(prop, seed, replayDir, cmdLog)
}

var legal = []string{
	"legal SI histories only: unique allocation keys, node and application registered before their allocations, confirmations only for releases the core announced",
	"predicate answers are a pure function of (case seed, allocation key, node id)",
	"exploration: held on the executions listed here, nothing is claimed about histories that were not generated",
}

func init() {
	rules := map[string]string{
		"C01": "case = seeded configuration + executed operation list on the real core (manual scheduling, barrier and full snapshot after every step); non-trivial = at least one scheduler-decided binding checked on a node at least half full and at least one ledger check; distinct by sha256(config+ops)",
		"C02": "case as C01; non-trivial = at least one scheduler-decided allocation while an ancestor queue had less than twice the ask left below its maximum; distinct by sha256(config+ops)",
		"C03": "case as C01 with gang/removal/duplicate-confirmation heavy operation mix and a closing phase (everything released and removed); non-trivial = closing phase reached and the history had allocations and core-initiated or shim-initiated releases; distinct by sha256(config+ops)",
		"C04": "case as C03; non-trivial = at least one new allocation and one release announced; distinct by sha256(config+ops)",
		"C05": "case as C01 with limit-heavy configurations and reloads; non-trivial = at least one scheduler-decided allocation checked against a user or group limit that existed on its path; distinct by sha256(config+ops)",
		"C06": "case as C01 with 85% gang applications; non-trivial = at least one swap confirmed or one placeholder timeout fired; distinct by sha256(config+ops)",
		"C09": "case as C01 with tiny nodes and asks back-dated past the reservation delay; non-trivial = at least one reservation created; distinct by sha256(config+ops)",
		"C10": "case as C01 with state timers fired often; non-trivial = the applications of the case visited at least 4 distinct states in the update stream; distinct by sha256(config+ops)",
		"C11": "case as C01 with max-applications on most queues; non-trivial = at least one first allocation of a not-yet-running application under a queue with a max-applications limit; distinct by sha256(config+ops)",
	}
	for _, p := range []string{"C01", "C02", "C03", "C04", "C05", "C06", "C09", "C10", "C11"} {
		driver.Register(&driver.Spec{Prop: p, Run: detRunner, Quick: 600, Thorough: 12000, Batch: 25, Rule: rules[p], Assumptions: legal})
	}
}

func init() {
	driver.Replayers["*"] = func(path string) int { return det.ReplayPath(path, os.Getenv("VERIF_VERBOSE") != "") }
}


func init() {
	driver.Register(&driver.Spec{Prop: "C18", Quick: 2000, Thorough: 60000, Batch: 20,
		Run: func(prop string, seed uint64, idx int, tier string, replayDir string, cmdLog *os.File) *det.CaseResult {
			return pure.RunC18(seed, 5000)
		},
		Rule: "case = 5000 evaluations of the real resources functions / quantity parsers on seeded operands (key sets from 4 names, nil and empty, values from the int64 extremes and uniform; strings from the quantity grammar and mutations), each compared with an arbitrary-precision (math/big) reference; non-trivial = the case contained int64-extreme operands or near-overflow quantity strings; distinct by sha256 of all operands of the case",
		Assumptions: []string{"the reference follows the documentation comments of each function; where a comment is silent (disjoint/empty operands of the OnlyExisting comparisons, rounding of MultiplyBy) the reference is three-valued / interval-valued and cannot alarm", "quantity grammar as documented in quantity.go plus optional blanks between digits and suffix (accepted by the implementation, not a truncation)"}})
}

func init() {
	driver.Register(&driver.Spec{Prop: "C20", Quick: 2000, Thorough: 60000, Batch: 20, RaceThorough: true,
		Run: func(prop string, seed uint64, idx int, tier string, replayDir string, cmdLog *os.File) *det.CaseResult {
			return pure.RunC20(seed, idx, tier)
		},
		Rule: "case 0 = exhaustive enumeration of the small sub-space (capacity<=5 quick / <=7 thorough, fill<=2*capacity+1, at most one resize at every position, every (start,count) and recent(count)); every other case = 60 seeded ring-buffer scripts (add, resize, GetEventsFromID, GetRecentEvents) compared with a list-based reference by pointer identity of the records, 20 event-store scripts, and in every 4th case a concurrent stream run (publisher, resizes, subscribers created at random moments); non-trivial = at least one query with start inside the available range; distinct by sha256 of the scripts",
		Assumptions: []string{"the publisher of the stream runs does ring.Add followed by PublishEvent from one goroutine, exactly as EventSystemImpl's handler goroutine does", "a store batch is compared with the store size in force when its events were stored (a size change takes effect at the next collect)"}})
}

func init() {
	driver.Register(&driver.Spec{Prop: "C19", Quick: 800, Thorough: 40000, Batch: 20,
		Run: func(prop string, seed uint64, idx int, tier string, replayDir string, cmdLog *os.File) *det.CaseResult {
			return pure.RunC19(seed)
		},
		Rule: "case = 12 queue worlds + 8 application worlds + 6 ask scripts + 4 node-collection scripts built from the seed with the real constructors; every world is sorted repeatedly through the real sortQueues/sortApplications (candidates come from Go maps, so every call presents another permutation) and every pair the policy distinguishes must appear in the policy's order in every call; non-trivial = the case had queue pairs the policy distinguishes and tied pairs; distinct by sha256 of the world descriptions",
		Assumptions: []string{"the sort keys (current priority, fair share from CompUsageRatio(Separately), submission time, pending size) are read with the core's own exported getters: the monitor judges order-independence, not the arithmetic of the keys (that is C18)", "node order is compared on scores recomputed from the current utilisation with a 1e-9 tolerance"}})
}


func raceLogPath() string {
	if p := os.Getenv("VERIF_RACE_LOG"); p != "" {
		return p + "." + strconv.Itoa(os.Getpid())
	}
	return ""
}

func init() {
	driver.Register(&driver.Spec{Prop: "C14", Quick: 16, Thorough: 320, Batch: 1, Race: true, TimeoutPerBatch: 4 * time.Minute,
		Env: []string{"DEADLOCK_DETECTION_ENABLED=true", "DEADLOCK_TIMEOUT_SECONDS=20"},
		Run: func(prop string, seed uint64, idx int, tier string, replayDir string, cmdLog *os.File) *det.CaseResult {
			procs := []int{2, 4, 8, 16}[idx%4]
			runtime.GOMAXPROCS(procs)
			o := conc.Opts{Duration: 5 * time.Second, Clients: 3 + idx%4, YieldPermille: []int32{0, 30, 100, 250}[(idx/4)%4], PredDelayUs: 800, Reload: idx%4 >= 2, Rest: true, Gang: false, NodeRemoval: idx%4 == 3, AppRemoval: idx%4 == 1 || idx%4 == 3, RMBound: idx%4 == 3}
			if tier == "thorough" {
				o.Duration = 7 * time.Second
			}
			r := conc.Run(prop, seed, o, raceLogPath())
			r.Obs["conc.gomaxprocs_"+strconv.Itoa(procs)]++
			return r
		},
		Rule: "case = one concurrent run of the real core (scheduling loop, three event handlers, proxy, quota preemption loop, health checker every 50 ms, timers) under -race and go-deadlock order detection with 3-6 client goroutines, confirmer, reloader (two configurations alternating), node updater, 3 REST readers; seeded lock-acquire yields (0-25%); GOMAXPROCS 2/4/8/16; then settle and evaluate the quiescent-state oracles; non-trivial = more than 100 client operations and 200 trace events; distinct by sha256 of the per-key callback sequence (distinct interleavings seen by the shim)",
		Assumptions: []string{"the race detector and go-deadlock are trusted for what they report; only interleavings that were executed are judged", "legal SI traffic only (C13 owns hostile input)", "REST handler panics (net/http recovers them per request) are counted as diagnostics, no property covers them"}})
}

func init() {
	driver.Register(&driver.Spec{Prop: "C13", Quick: 800, Thorough: 16000, Batch: 25, TimeoutPerBatch: 6 * time.Minute,
		Run: func(prop string, seed uint64, idx int, tier string, replayDir string, cmdLog *os.File) *det.CaseResult {
			return det.RunHostileCase(seed, replayDir, cmdLog)
		},
		Rule: "case = a seeded legal history prefix (5-60 operations) that leaves the core in some reachable state, then 15-30 messages from the hostile generator (24 classes over the SI Go structs: unknown/duplicate/empty/very long/unicode ids, unset sub-messages, zero/negative/MinInt64 quantities, every termination type and node action incl. out-of-range values, placeholder without task group, foreign tags with junk, releases of things that do not exist), each logged to disk before it is sent, in a child process; non-trivial = at least 5 hostile messages were judged; distinct by sha256 of the hostile messages",
		Assumptions: []string{"no nil list elements and no nil map values (excluded by the property)", "a worker process that dies is a violation (the command log names the message), a barrier that does not return within 30 s is a hang"}})
	driver.CrashHandler["C13"] = det.HostileCrash
}
