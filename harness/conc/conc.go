// Package conc is the concurrent engine: the real scheduling loop, event handlers, proxy, quota preemption loop,
// health checker and timers run while client goroutines, a confirmer, a reloader, a node updater and REST readers
// hammer the core. Built with -race, run with go-deadlock order detection and the seeded lock-acquire yield hook.
package conc

import (
	"bufio"
	"crypto/sha256"
	"encoding/hex"
	"encoding/json"
	"fmt"
	"net/http"
	"net/http/httptest"
	"os"
	"regexp"
	"runtime"
	"sort"
	"strings"
	"sync"
	"sync/atomic"
	"time"

	"github.com/apache/yunikorn-core/pkg/locking"
	"github.com/apache/yunikorn-core/pkg/scheduler/objects"
	"github.com/apache/yunikorn-core/pkg/webservice"
	siCommon "github.com/apache/yunikorn-scheduler-interface/lib/go/common"
	"github.com/apache/yunikorn-scheduler-interface/lib/go/si"

	"verifharness/det"
	"verifharness/res"
	"verifharness/shim"
	"verifharness/world"
)

const confA = `
partitions:
  - name: default
    nodesortpolicy:
      type: fair
    preemption:
      enabled: true
      quotapreemptionenabled: true
    placementrules:
      - name: provided
        create: true
    queues:
      - name: root
        submitacl: "*"
        queues:
          - name: a
            resources:
              guaranteed: {memory: 4, vcore: 4}
              max: {memory: 12, vcore: 12}
            properties:
              preemption.delay: 1s
              quota.preemption.delay: 1ms
            limits:
              - limit: users
                users: ["*"]
                maxresources: {memory: 8, vcore: 8}
                maxapplications: 4
          - name: b
            parent: true
            maxapplications: 6
            queues:
              - name: b1
                maxapplications: 4
                resources:
                  max: {memory: 10, vcore: 10}
              - name: b2
                maxapplications: 3
                properties:
                  application.sort.policy: fair
          - name: dyn
            parent: true
            childtemplate:
              maxapplications: 3
              resources:
                max: {memory: 8, vcore: 8}
`

const confB = `
partitions:
  - name: default
    nodesortpolicy:
      type: binpacking
    preemption:
      enabled: true
      quotapreemptionenabled: true
    placementrules:
      - name: provided
        create: true
    queues:
      - name: root
        submitacl: "*"
        queues:
          - name: a
            resources:
              guaranteed: {memory: 2, vcore: 2}
              max: {memory: 6, vcore: 6}
            properties:
              preemption.delay: 1s
              quota.preemption.delay: 1ms
            limits:
              - limit: users
                users: ["u1"]
                maxresources: {memory: 4, vcore: 4}
              - limit: groups
                groups: ["g1"]
                maxresources: {memory: 6, vcore: 6}
          - name: b
            parent: true
            maxapplications: 4
            queues:
              - name: b1
                maxapplications: 2
                resources:
                  max: {memory: 8, vcore: 8}
              - name: b2
                maxapplications: 4
              - name: b3
                maxapplications: 1
          - name: dyn
            parent: true
`

// Opts of one concurrent run.
type Opts struct {
	Duration      time.Duration
	Clients       int
	YieldPermille int32
	PredDelayUs   int // maximum predicate delay in microseconds (widens the check-then-add window)
	Reload        bool
	Rest          bool
	HotNode       bool // single small node hammered by capacity changes and RM-bound allocations (C01 window)
	Gang          bool
	NodeRemoval   bool // decommission nodes while scheduling (known findings live there)
	AppRemoval    bool // remove applications while scheduling
	RMBound       bool // allocations reported as already bound by the RM (recovery path) while scheduling
}

type appState struct {
	id      string
	pending []string
	bound   []string
	gang    bool
	phSent  int
	removed bool
	askRes  map[string]res.R
}

type runner struct {
	c            *shim.Core
	o            Opts
	seed         uint64
	mu           sync.Mutex
	apps         map[string]*appState
	nodes        map[string]bool
	stop         atomic.Bool
	ops          atomic.Int64
	obs          map[string]int64
	obsMu        sync.Mutex
	restPanics   atomic.Int64
	probeBad     atomic.Int64
	probeAdds    atomic.Int64
	probeWindow  atomic.Int64
	badDetail    atomic.Value
	keyN         atomic.Int64
	nodeRemovals atomic.Int64
	reloads      atomic.Int64
}

func (r *runner) count(k string, n int64) {
	r.obsMu.Lock()
	r.obs[k] += n
	r.obsMu.Unlock()
}

func (r *runner) onRecv(e *shim.Ev) {
	r.mu.Lock()
	defer r.mu.Unlock()
	a := r.apps[e.App]
	switch e.Kind {
	case "new":
		if a != nil {
			for i, k := range a.pending {
				if k == e.Key {
					a.pending = append(a.pending[:i], a.pending[i+1:]...)
					break
				}
			}
			a.bound = append(a.bound, e.Key)
		}
	case "released":
		if a != nil {
			for i, k := range a.bound {
				if k == e.Key {
					a.bound = append(a.bound[:i], a.bound[i+1:]...)
					break
				}
			}
		}
	}
}

func (r *runner) client(id int, wg *sync.WaitGroup) {
	defer wg.Done()
	rng := det.NewRng(det.Mix(r.seed, uint64(100+id)))
	c := r.c
	appN := 0
	users := []string{"u1", "u2", "u3"}
	queues := []string{"root.a", "root.b.b1", "root.b.b2", "root.a", "root.dyn.x", "root.dyn.y", "root.a.notallowed", "root.b"}
	mine := []string{}
	sinceFence, fenceN := 0, 0
	for !r.stop.Load() {
		r.ops.Add(1)
		switch rng.Weighted([]int{12, 50, 14, 6, 5, 6, 3}) {
		case 0: // new application
			if len(mine) >= 4 {
				continue
			}
			appN++
			appID := fmt.Sprintf("c%d-app%d", id, appN)
			gang := r.o.Gang && rng.Chance(300)
			q := queues[rng.Intn(len(queues))]
			if gang {
				q = "root.b.b1"
			}
			spec := shim.AppSpec{ID: appID, Queue: q, User: users[rng.Intn(3)], Groups: []string{"g1"}}
			if gang {
				spec.PlaceholderAsk = res.R{"memory": 2, "vcore": 2}
				spec.GangStyle = []string{"Soft", "Hard"}[rng.Intn(2)]
				spec.TimeoutMs = int64(200 + rng.Intn(2000))
			}
			r.mu.Lock()
			r.apps[appID] = &appState{id: appID, gang: gang}
			r.mu.Unlock()
			mine = append(mine, appID)
			_ = c.SendApp(spec)
			r.count("conc.addApp", 1)
		case 1: // ask
			if len(mine) == 0 {
				continue
			}
			appID := mine[rng.Intn(len(mine))]
			key := fmt.Sprintf("%s-k%d", appID, r.keyN.Add(1))
			spec := shim.AllocSpec{App: appID, Key: key, Res: res.R{"memory": int64(rng.Range(1, 2)), "vcore": int64(rng.Range(1, 2))}, Prio: int32(rng.Intn(3)),
				Tags: map[string]string{siCommon.CreationTime: shim.CreationTag(int64(rng.Intn(2) * 10))}, PreemptOther: rng.Chance(500), PreemptSelf: true}
			r.mu.Lock()
			a := r.apps[appID]
			if a == nil || a.removed {
				r.mu.Unlock()
				continue
			}
			if a.gang {
				spec.TaskGroup = "tg1"
				spec.Res = res.R{"memory": 1, "vcore": 1}
				if a.phSent < 2 {
					a.phSent++
					spec.Placeholder = true
				}
			}
			a.pending = append(a.pending, key)
			if a.askRes == nil {
				a.askRes = map[string]res.R{}
			}
			a.askRes[key] = spec.Res
			r.mu.Unlock()
			_ = c.SendAlloc(spec)
			r.count("conc.ask", 1)
		case 2: // release a bound allocation
			r.mu.Lock()
			var appID, key string
			for _, id := range mine {
				if a := r.apps[id]; a != nil && len(a.bound) > 0 {
					appID, key = id, a.bound[rng.Intn(len(a.bound))]
					break
				}
			}
			r.mu.Unlock()
			if key != "" {
				_ = c.SendRelease(appID, key, si.TerminationType_STOPPED_BY_RM, false)
				r.count("conc.release", 1)
			}
		case 3: // release a pending ask
			r.mu.Lock()
			var appID, key string
			for _, id := range mine {
				if a := r.apps[id]; a != nil && !a.gang && len(a.pending) > 0 {
					appID, key = id, a.pending[0]
					a.pending = a.pending[1:]
					break
				}
			}
			r.mu.Unlock()
			if key != "" {
				_ = c.SendRelease(appID, key, si.TerminationType_STOPPED_BY_RM, false)
				r.count("conc.releaseAsk", 1)
			}
		case 4: // remove application
			if len(mine) == 0 || !r.o.AppRemoval {
				continue
			}
			i := rng.Intn(len(mine))
			appID := mine[i]
			mine = append(mine[:i], mine[i+1:]...)
			r.mu.Lock()
			if a := r.apps[appID]; a != nil {
				a.removed = true
			}
			r.mu.Unlock()
			_ = c.SendRemoveApp(appID)
			r.count("conc.rmApp", 1)
		case 5: // RM-bound allocation (recovery path) on a random node
			if len(mine) == 0 || !r.o.RMBound {
				continue
			}
			appID := mine[rng.Intn(len(mine))]
			r.mu.Lock()
			a := r.apps[appID]
			var node string
			for n := range r.nodes {
				node = n
				break
			}
			ok := a != nil && !a.removed && !a.gang && node != ""
			pendingKey := ""
			var pendingRes res.R
			if ok && len(a.pending) > 0 && rng.Chance(500) {
				// the RM binds a pending ask itself, while the scheduler may be allocating or reserving it
				pendingKey = a.pending[len(a.pending)-1]
				pendingRes = a.askRes[pendingKey]
				a.pending = a.pending[:len(a.pending)-1]
				a.bound = append(a.bound, pendingKey)
			}
			r.mu.Unlock()
			if ok && pendingKey != "" {
				_ = c.SendAlloc(shim.AllocSpec{App: appID, Key: pendingKey, Node: node, Res: pendingRes, Tags: map[string]string{}})
				r.count("conc.bindPending", 1)
			} else if ok {
				key := fmt.Sprintf("%s-b%d", appID, r.keyN.Add(1))
				_ = c.SendAlloc(shim.AllocSpec{App: appID, Key: key, Node: node, Res: res.R{"memory": 1, "vcore": 1}, Tags: map[string]string{}})
				r.count("conc.bound", 1)
			}
		default: // release everything of an application
			if len(mine) == 0 {
				continue
			}
			_ = c.SendRelease(mine[rng.Intn(len(mine))], "", si.TerminationType_STOPPED_BY_RM, false)
			r.count("conc.releaseAll", 1)
		}
		if rng.Chance(700) {
			time.Sleep(time.Duration(rng.Intn(400)) * time.Microsecond)
		}
		// bound the backlog: every 25 operations wait until the core has processed what this client sent
		sinceFence++
		if sinceFence >= 25 {
			sinceFence = 0
			fenceN++
			c.Fence(fmt.Sprintf("c%d-%d", id, fenceN), 20*time.Second)
		}
	}
}

func (r *runner) nodeUpdater(wg *sync.WaitGroup) {
	defer wg.Done()
	rng := det.NewRng(det.Mix(r.seed, 7))
	c := r.c
	n := 0
	forN := 0
	var foreign []string
	add := func() {
		n++
		id := fmt.Sprintf("n%d", n)
		capMem := int64(rng.Range(6, 12))
		if r.o.HotNode {
			capMem = 10
		}
		_ = c.SendNode(shim.NodeSpec{ID: id, Cap: res.R{"memory": capMem, "vcore": capMem}, Action: si.NodeInfo_CREATE})
		r.mu.Lock()
		r.nodes[id] = true
		r.mu.Unlock()
	}
	add()
	if !r.o.HotNode {
		add()
	}
	for !r.stop.Load() {
		time.Sleep(time.Duration(rng.Intn(3000)) * time.Microsecond)
		r.mu.Lock()
		ids := make([]string, 0, len(r.nodes))
		for id := range r.nodes {
			ids = append(ids, id)
		}
		r.mu.Unlock()
		sort.Strings(ids)
		if len(ids) == 0 {
			add()
			continue
		}
		id := ids[rng.Intn(len(ids))]
		switch rng.Weighted([]int{30, 6, 6, 3, 14, 10, 5}) {
		case 0:
			v := int64(rng.Range(3, 12))
			_ = c.SendNode(shim.NodeSpec{ID: id, Cap: res.R{"memory": v, "vcore": v}, Action: si.NodeInfo_UPDATE})
			r.count("conc.nodeUpdate", 1)
		case 1:
			_ = c.SendNode(shim.NodeSpec{ID: id, Action: si.NodeInfo_DRAIN_NODE})
		case 2:
			_ = c.SendNode(shim.NodeSpec{ID: id, Action: si.NodeInfo_DRAIN_TO_SCHEDULABLE})
		case 3:
			if len(ids) > 1 && !r.o.HotNode && r.o.NodeRemoval {
				r.nodeRemovals.Add(1)
				r.mu.Lock()
				delete(r.nodes, id)
				r.mu.Unlock()
				_ = c.SendNode(shim.NodeSpec{ID: id, Action: si.NodeInfo_DECOMISSION})
				r.count("conc.nodeRemove", 1)
			}
		case 4:
			forN++
			key := fmt.Sprintf("foreign-%d", forN)
			foreign = append(foreign, key)
			_ = c.SendAlloc(shim.AllocSpec{Key: key, Node: id, Res: res.R{"memory": int64(rng.Range(1, 3))}, Tags: map[string]string{siCommon.Foreign: siCommon.AllocTypeDefault}})
			r.count("conc.foreign", 1)
		case 5:
			if len(foreign) > 0 {
				key := foreign[0]
				foreign = foreign[1:]
				_ = c.SendRelease("", key, si.TerminationType_STOPPED_BY_RM, false)
			}
		default:
			if len(ids) < 4 && !r.o.HotNode {
				add()
			}
		}
	}
}

func (r *runner) confirmer(wg *sync.WaitGroup) {
	defer wg.Done()
	rng := det.NewRng(det.Mix(r.seed, 9))
	for !r.stop.Load() {
		time.Sleep(time.Duration(500+rng.Intn(4000)) * time.Microsecond)
		r.deliver(rng, false)
	}
}

func (r *runner) deliver(rng *det.Rng, all bool) int {
	q := r.c.S.Confirms()
	n := 0
	for len(q) > 0 {
		i := 0
		if !all {
			i = rng.Intn(len(q))
		}
		cf := q[i]
		r.c.S.RemoveConfirm(i)
		_ = r.c.SendRelease(cf.App, cf.Key, cf.Term, true)
		n++
		if !all && rng.Chance(80) {
			_ = r.c.SendRelease(cf.App, cf.Key, cf.Term, true) // duplicate
		}
		if !all && rng.Chance(500) {
			break
		}
		q = r.c.S.Confirms()
	}
	r.count("conc.confirms", int64(n))
	return n
}

func (r *runner) reloader(wg *sync.WaitGroup) {
	defer wg.Done()
	rng := det.NewRng(det.Mix(r.seed, 11))
	cfgs := []string{confB, confA}
	i := 0
	for !r.stop.Load() {
		time.Sleep(time.Duration(20+rng.Intn(200)) * time.Millisecond)
		if r.stop.Load() {
			return
		}
		_ = r.c.Reload(cfgs[i%2])
		r.reloads.Add(1)
		i++
		r.count("conc.reloads", 1)
	}
}

var restPaths = []string{
	"/ws/v1/partitions", "/ws/v1/clusters", "/ws/v1/config", "/ws/v1/partition/default/queues", "/ws/v1/partition/default/nodes",
	"/ws/v1/partition/default/applications/active", "/ws/v1/partition/default/applications/completed", "/ws/v1/partition/default/applications/rejected",
	"/ws/v1/partition/default/placementrules", "/ws/v1/partition/default/usage/users", "/ws/v1/partition/default/usage/groups",
	"/ws/v1/partition/default/queue/root.a", "/ws/v1/partition/default/queue/root.a/applications", "/ws/v1/scheduler/healthcheck",
	"/ws/v1/events/batch", "/ws/v1/fullstatedump", "/ws/v1/scheduler/node-utilizations", "/ws/v1/metrics",
}

func (r *runner) restReader(id int, h http.Handler, wg *sync.WaitGroup) {
	defer wg.Done()
	rng := det.NewRng(det.Mix(r.seed, uint64(200+id)))
	for !r.stop.Load() {
		p := restPaths[rng.Intn(len(restPaths))]
		func() {
			defer func() {
				if rec := recover(); rec != nil {
					// net/http recovers handler panics per request; not covered by any of the properties: diagnostic only
					r.restPanics.Add(1)
				}
			}()
			req := httptest.NewRequest(http.MethodGet, p, nil)
			w := httptest.NewRecorder()
			h.ServeHTTP(w, req)
			r.count("conc.rest", 1)
		}()
		// direct getters too
		if pc := r.c.Partition(); pc != nil {
			for _, a := range pc.GetApplications() {
				_ = a.GetAllAllocations()
				_ = a.GetPendingResource()
				_ = a.CurrentState()
			}
			for _, n := range pc.GetNodes() {
				_ = n.GetAvailableResource()
				_ = n.GetReservationKeys()
			}
		}
		time.Sleep(time.Duration(rng.Intn(1500)) * time.Microsecond)
	}
}

// Result of one run.
type Result struct {
	Case *det.CaseResult
}

var raceFrame = regexp.MustCompile(`^\s+(github\.com/apache/yunikorn-core/[^\s(]+(?:\([^)]*\))?[^\s(]*)\(`)

// ParseRaceLog turns the race detector output into one signature per report: the unordered pair of the innermost
// yunikorn-core frames that are not in pkg/common/resources or pkg/locking.
func ParseRaceLog(text string) (sigs []string, blocks []string) {
	parts := strings.Split(text, "==================")
	for _, b := range parts {
		if !strings.Contains(b, "WARNING: DATA RACE") {
			continue
		}
		var stacks [][]string
		var cur []string
		inAccess := false
		sc := bufio.NewScanner(strings.NewReader(b))
		sc.Buffer(make([]byte, 1<<16), 1<<22)
		for sc.Scan() {
			line := sc.Text()
			t := strings.TrimSpace(line)
			switch {
			case strings.HasPrefix(t, "Write at") || strings.HasPrefix(t, "Read at") || strings.HasPrefix(t, "Previous write at") || strings.HasPrefix(t, "Previous read at") ||
				strings.HasPrefix(t, "Atomic write at") || strings.HasPrefix(t, "Previous atomic"):
				if cur != nil {
					stacks = append(stacks, cur)
				}
				cur = []string{}
				inAccess = true
			case strings.HasPrefix(t, "Goroutine ") || t == "":
				if inAccess && cur != nil && t != "" {
					stacks = append(stacks, cur)
					cur = nil
					inAccess = false
				}
				if t == "" && inAccess && len(cur) > 0 {
					stacks = append(stacks, cur)
					cur = nil
					inAccess = false
				}
			default:
				if inAccess && !strings.HasPrefix(t, "/") {
					if i := strings.LastIndex(t, "("); i > 0 {
						cur = append(cur, t[:i])
					} else {
						cur = append(cur, t)
					}
				}
			}
		}
		if cur != nil && len(cur) > 0 {
			stacks = append(stacks, cur)
		}
		var ends []string
		coreSeen := false
		for _, st := range stacks {
			pick := ""
			for _, f := range st {
				if !strings.Contains(f, "github.com/apache/yunikorn-core/") {
					continue
				}
				coreSeen = true
				if strings.Contains(f, "/pkg/common/resources.") || strings.Contains(f, "/pkg/locking.") {
					continue
				}
				pick = strings.TrimPrefix(f, "github.com/apache/yunikorn-core/pkg/")
				break
			}
			if pick == "" && len(st) > 0 {
				pick = "(" + st[0] + ")"
			}
			ends = append(ends, pick)
		}
		sort.Strings(ends)
		sig := strings.Join(ends, "|")
		if !coreSeen {
			sig = "HARNESS:" + sig
		}
		sigs = append(sigs, sig)
		blocks = append(blocks, b)
	}
	return
}

var dlSite = regexp.MustCompile(`(?m)^\s*(\S+\.go):(\d+) (\S+)`)

// deadlockSignature: the acquisition sites (first frames outside pkg/locking and go-deadlock) named in the report.
func deadlockSignature(rep string) string {
	kind := "potential-deadlock"
	if strings.Contains(rep, "Inconsistent locking") {
		kind = "inconsistent-lock-order"
	} else if strings.Contains(rep, "Recursive locking") {
		kind = "recursive-locking"
	}
	var sites []string
	seen := map[string]bool{}
	for _, line := range strings.Split(rep, "\n") {
		t := strings.TrimSpace(line)
		if !strings.Contains(t, ".go:") || strings.Contains(t, "pkg/locking") || strings.Contains(t, "go-deadlock") || strings.Contains(t, "verif_yield") {
			continue
		}
		m := dlSite.FindStringSubmatch(t)
		if m == nil {
			continue
		}
		fn := m[3]
		if i := strings.LastIndex(fn, "/"); i >= 0 {
			fn = fn[i+1:]
		}
		fn = strings.TrimSuffix(fn, "{")
		if !seen[fn] && len(sites) < 4 {
			seen[fn] = true
			sites = append(sites, fn)
		}
	}
	return kind + ":" + strings.Join(sites, "|")
}

// Run executes one concurrent run and evaluates the oracles of the named property.
func Run(prop string, seed uint64, o Opts, raceLogPath string) *det.CaseResult {
	out := &det.CaseResult{Prop: prop, Seed: seed, Obs: map[string]int64{}}
	rng := det.NewRng(seed)
	if locking.IsTrackingEnabled() {
		locking.VerifCaptureDeadlocks()
	}
	beforeReports := len(locking.VerifDeadlockReports())
	raceOffset := fileSize(raceLogPath)
	c, err := shim.Start("rm:1", confA, false, map[string]string{"health.checkInterval": "50ms"})
	if err != nil {
		out.Inconclusive = "core did not start: " + err.Error()
		return out
	}
	objects.VerifSetTimings(200*time.Millisecond, -1, 300*time.Millisecond, 24*time.Hour)
	locking.VerifSetYield(int64(seed>>8), o.YieldPermille)
	yields0 := locking.VerifYields()
	r := &runner{c: c, o: o, seed: seed, apps: map[string]*appState{}, nodes: map[string]bool{}, obs: out.Obs}
	c.S.NoPredLog = true
	c.S.OnRecv = r.onRecv
	predSeed := det.Mix(seed, 3)
	c.S.Pred = func(key, node string, allocate bool) bool {
		h := sha256.Sum256([]byte(fmt.Sprintf("%d|%s|%s", predSeed, key, node)))
		return int(h[0])%100 >= 8
	}
	if o.PredDelayUs > 0 {
		c.S.PredDelay = func(key, node string) time.Duration {
			h := sha256.Sum256([]byte(fmt.Sprintf("d%d|%s|%s", predSeed, key, node)))
			return time.Duration(int(h[1])*o.PredDelayUs/255) * time.Microsecond
		}
	}
	// in-lock probe: exact observation of "added without fitting" (C01) atomically with the ledger update
	objects.VerifSetNodeAddProbe(func(nodeID, allocKey string, force, fits, foreign bool) {
		if foreign {
			return
		}
		if !force {
			r.probeAdds.Add(1)
			if !fits {
				r.probeBad.Add(1)
				r.badDetail.Store(fmt.Sprintf("allocation %s added to node %s by the scheduler although it did not fit under the node lock", allocKey, nodeID))
			}
		}
	})
	defer objects.VerifSetNodeAddProbe(nil)
	var wg sync.WaitGroup
	wg.Add(1)
	go r.nodeUpdater(&wg)
	for i := 0; i < o.Clients; i++ {
		wg.Add(1)
		go r.client(i, &wg)
	}
	wg.Add(1)
	go r.confirmer(&wg)
	if o.Reload {
		wg.Add(1)
		go r.reloader(&wg)
	}
	if o.Rest {
		h := webservice.VerifRouter(c.Sched.GetClusterContext())
		for i := 0; i < 3; i++ {
			wg.Add(1)
			go r.restReader(i, h, &wg)
		}
	}
	time.Sleep(o.Duration)
	r.stop.Store(true)
	wg.Wait()
	locking.VerifSetYield(0, 0)
	// settle: deliver every confirmation, wait until nothing moves
	quiet := false
	deadline := time.Now().Add(30 * time.Second)
	lastLen, lastChange := -1, time.Now()
	for time.Now().Before(deadline) {
		r.deliver(rng, true)
		if !c.Barrier(10 * time.Second) {
			break
		}
		n := c.S.TraceLen()
		if n != lastLen {
			lastLen, lastChange = n, time.Now()
		} else if time.Since(lastChange) > 700*time.Millisecond && len(c.S.Confirms()) == 0 {
			quiet = true
			break
		}
		time.Sleep(20 * time.Millisecond)
	}
	out.Obs["conc.ops"] = r.ops.Load()
	out.Obs["conc.yields"] = locking.VerifYields() - yields0
	out.Obs["conc.scheduler_adds_probed"] = r.probeAdds.Load()
	out.Obs["diag.rest_handler_panics"] = r.restPanics.Load()
	out.Obs["conc.trace_events"] = int64(c.S.TraceLen())
	add := func(p, rule, sig, text string) {
		out.Violations = append(out.Violations, det.Violation{Prop: p, Rule: rule, Signature: p + "/" + rule + sig, Text: text})
	}
	if n := r.probeBad.Load(); n > 0 {
		d, _ := r.badDetail.Load().(string)
		add("C01", "conc-added-without-fit", "", fmt.Sprintf("%d scheduler allocations were added to a node without fitting (in-lock probe); last: %s", n, d))
		if prop == "C14" {
			add("C14", "final-state/C01-conc-added-without-fit", "", d)
		}
	}
	if !quiet {
		// bounded progress: two goroutine dumps 2s apart, the same core goroutine parked on a lock or channel inside the core
		d1 := dump()
		time.Sleep(2 * time.Second)
		d2 := dump()
		if g := stuckCoreGoroutine(d1, d2); g != "" {
			add("C14", "goroutine-blocked", "/"+firstCoreFrame(g), "the system did not settle within 30s and this goroutine is parked at the same place in two dumps 2s apart:\n"+g)
		} else {
			out.Inconclusive = "no quiescence within 30s, no blocked core goroutine identified"
		}
	}
	// final state oracles. The snapshot reads nodes, queues and applications one after the other: it is only
	// meaningful when nothing moves while it is taken. Two snapshots around a pause must be identical and the trace
	// must not have grown, otherwise the run is inconclusive (not a violation).
	var w *world.World
	if quiet {
		pc := c.Partition()
		stable := false
		for try := 0; try < 8 && !stable; try++ {
			n0 := c.S.TraceLen()
			w1 := world.Snap(pc)
			time.Sleep(150 * time.Millisecond)
			if !c.Barrier(10 * time.Second) {
				break
			}
			w2 := world.Snap(pc)
			b1, _ := json.Marshal(w1)
			b2, _ := json.Marshal(w2)
			if c.S.TraceLen() == n0 && string(b1) == string(b2) {
				stable, w = true, w2
			} else {
				r.deliver(rng, true)
				time.Sleep(300 * time.Millisecond)
			}
		}
		if !stable {
			quiet = false
			out.Inconclusive = "the final state kept changing, no stable snapshot"
		}
	}
	if quiet {
		e := det.NewEngine(c, confA)
		e.CheckProp = prop
		e.Hist.Reloads = int(r.reloads.Load())
		e.FinalCheck(w)
		ctx := "@conc-final"
		if r.nodeRemovals.Load() > 0 {
			ctx += "+node-removal"
		}
		if r.o.AppRemoval {
			ctx += "+app-removal"
		}
		if r.o.RMBound {
			ctx += "+rm-bound"
		}
		if r.reloads.Load() > 0 {
			ctx += "+reload"
		}
		for _, v := range e.Viol {
			v.Signature = strings.Replace(v.Signature, "@init", ctx, 1)
			if prop == "C14" {
				v2 := v
				v2.Prop = "C14"
				v2.Signature = "C14/final-state/" + v.Signature
				out.Violations = append(out.Violations, v2)
			}
			out.Violations = append(out.Violations, v)
		}
		out.Obs["conc.final_state_checks"]++
		out.Obs["conc.final_apps"] = int64(len(w.Apps))
		out.Obs["conc.final_allocs"] = int64(w.NAllocs)
	}
	// order-insensitive protocol rules (C04) over the whole trace
	pv, pj := ProtocolViolations(c.S.TraceFrom(0))
	out.Obs["conc.protocol_events_judged"] = pj
	out.Violations = append(out.Violations, pv...)
	// go-deadlock
	reps := locking.VerifDeadlockReports()
	for _, rep := range reps[beforeReports:] {
		sig := deadlockSignature(rep)
		add("C14", "deadlock-detector", "/"+sig, rep)
	}
	c.Stop()
	time.Sleep(50 * time.Millisecond)
	// race reports of this run
	if raceLogPath != "" {
		txt := readFrom(raceLogPath, raceOffset)
		sigs, blocks := ParseRaceLog(txt)
		out.Obs["conc.race_reports"] += int64(len(sigs))
		seen := map[string]bool{}
		for i, s := range sigs {
			if seen[s] {
				continue
			}
			seen[s] = true
			if strings.HasPrefix(s, "HARNESS:") {
				out.Inconclusive = "data race inside the harness itself: " + s
				continue
			}
			b := blocks[i]
			if len(b) > 6000 {
				b = b[:6000]
			}
			add("C14", "data-race", "/"+s, b)
		}
	}
	if (len(out.Violations) > 0 || out.Inconclusive != "") && os.Getenv("VERIF_DIR") != "" {
		var b strings.Builder
		for _, ev := range c.S.TraceFrom(0) {
			b.WriteString(ev.String())
			b.WriteString("\n")
		}
		p := fmt.Sprintf("%s/evidence/replays/%s-%x.trace.txt", os.Getenv("VERIF_DIR"), prop, seed)
		_ = os.WriteFile(p, []byte(b.String()), 0o644)
	}
	hsum := sha256.New()
	hsum.Write([]byte(fmt.Sprintf("%d|%v", seed, o)))
	for _, ev := range c.S.TraceFrom(0) {
		if ev.Dir == "recv" {
			hsum.Write([]byte(ev.Kind + ev.Key + ev.Node))
		}
	}
	out.Hash = hex.EncodeToString(hsum.Sum(nil)[:12])
	out.Nontrivial = out.Obs["conc.ops"] > 100 && c.S.TraceLen() > 200
	out.Steps = int(r.ops.Load())
	tr := c.S.TraceFrom(0)
	var ops []string
	for i, ev := range tr {
		if i >= 40 {
			ops = append(ops, fmt.Sprintf("... (%d more trace events)", len(tr)-40))
			break
		}
		ops = append(ops, ev.String())
	}
	out.Sample = &det.Sample{Seed: fmt.Sprintf("%#x", seed), Config: "confA/confB alternating (see harness/conc/conc.go)", Ops: ops}
	return out
}

func fileSize(p string) int64 {
	if p == "" {
		return 0
	}
	st, err := os.Stat(p)
	if err != nil {
		return 0
	}
	return st.Size()
}

func readFrom(p string, off int64) string {
	b, err := os.ReadFile(p)
	if err != nil || int64(len(b)) <= off {
		return ""
	}
	return string(b[off:])
}

func dump() string {
	buf := make([]byte, 4<<20)
	n := runtime.Stack(buf, true)
	return string(buf[:n])
}

var goroutineHdr = regexp.MustCompile(`(?m)^goroutine (\d+) \[([^\]]+)\]:`)

func splitGoroutines(d string) map[string]string {
	out := map[string]string{}
	for _, g := range strings.Split(d, "\n\n") {
		m := goroutineHdr.FindStringSubmatch(g)
		if m != nil {
			out[m[1]] = g
		}
	}
	return out
}

func firstCoreFrame(g string) string {
	for _, line := range strings.Split(g, "\n") {
		if strings.HasPrefix(line, "github.com/apache/yunikorn-core/") && !strings.Contains(line, "/pkg/locking.") {
			f := strings.TrimPrefix(line, "github.com/apache/yunikorn-core/pkg/")
			if i := strings.LastIndex(f, "("); i > 0 {
				f = f[:i]
			}
			return f
		}
	}
	return ""
}

// stuckCoreGoroutine: a goroutine that is waiting on a lock (not on its event channel or a timer) inside the core
// with an identical stack in both dumps.
func stuckCoreGoroutine(d1, d2 string) string {
	a, b := splitGoroutines(d1), splitGoroutines(d2)
	for id, g := range a {
		g2, ok := b[id]
		if !ok {
			continue
		}
		m := goroutineHdr.FindStringSubmatch(g)
		state := m[2]
		if !strings.Contains(state, "sync.Mutex") && !strings.Contains(state, "sync.RWMutex") && !strings.Contains(state, "semacquire") && !strings.Contains(state, "chan send") {
			continue
		}
		if !strings.Contains(g, "github.com/apache/yunikorn-core/") || strings.Contains(g, "verifharness/") {
			continue
		}
		strip := func(s string) string { return goroutineHdr.ReplaceAllString(s, "") }
		if strip(g) == strip(g2) {
			return g
		}
	}
	return ""
}

// ProtocolViolations judges the rules of the allocation protocol (C04) that do not depend on how the shim's own
// requests interleave with the core: the callbacks arrive through one proxy goroutine (totally ordered), every request
// is recorded before it is sent, and allocation keys are never reused. So at any point of the log: a new allocation
// names a key and a node the shim has sent before; a key is not announced as allocated twice without the core
// announcing its release in between (one echo is allowed per "already bound" report of the shim); a release names a
// key the shim has sent before.
func ProtocolViolations(trace []*shim.Ev) (out []det.Violation, judged int64) {
	type ks struct {
		sent        bool
		echoAllowed int
		bound       bool
		kind        string // plain | gang-real | placeholder (what the shim sent)
	}
	nodeRemovals := 0
	keys := map[string]*ks{}
	nodes := map[string]bool{}
	get := func(k string) *ks {
		if keys[k] == nil {
			keys[k] = &ks{}
		}
		return keys[k]
	}
	add := func(rule, text string) {
		out = append(out, det.Violation{Prop: "C04", Rule: rule, Signature: "C04/" + rule + "@conc", Text: text, Op: "conc"})
	}
	for _, ev := range trace {
		if strings.HasPrefix(ev.Key, shim.SentinelPrefix) || strings.HasPrefix(ev.App, shim.SentinelPrefix) || strings.HasPrefix(ev.Node, shim.SentinelPrefix) {
			continue
		}
		switch {
		case ev.Dir == "send" && (ev.Kind == "ask" || ev.Kind == "foreign"):
			k := get(ev.Key)
			k.sent = true
			switch {
			case ev.Flag:
				k.kind = "placeholder"
			case ev.TG != "":
				k.kind = "gang-real"
			default:
				k.kind = "plain"
			}
		case ev.Dir == "send" && ev.Kind == "node:DECOMISSION":
			nodeRemovals++
		case ev.Dir == "send" && ev.Kind == "bound":
			k := get(ev.Key)
			k.sent = true
			k.echoAllowed++
		case ev.Dir == "send" && strings.HasPrefix(ev.Kind, "node:"):
			nodes[ev.Node] = true
		case ev.Dir == "recv" && ev.Kind == "new":
			judged++
			k := get(ev.Key)
			if !k.sent {
				add("new-unknown-key", fmt.Sprintf("the core announced allocation %s (application %s, node %s) for a key the shim never sent", ev.Key, ev.App, ev.Node))
			}
			if !nodes[ev.Node] {
				add("new-node-not-registered", fmt.Sprintf("the core announced allocation %s on node %s which the shim never registered", ev.Key, ev.Node))
			}
			if k.bound {
				if k.echoAllowed > 0 {
					k.echoAllowed--
				} else {
					ctx := "/" + k.kind
					if nodeRemovals > 0 {
						ctx += "+node-removal"
					}
					out = append(out, det.Violation{Prop: "C04", Rule: "key-bound-twice", Signature: "C04/key-bound-twice" + ctx + "@conc", Op: "conc",
						Text: fmt.Sprintf("the core announced allocation %s (%s) as new twice without announcing its release in between", ev.Key, k.kind)})
				}
			} else if k.echoAllowed > 0 {
				k.echoAllowed--
			}
			k.bound = true
		case ev.Dir == "recv" && ev.Kind == "released":
			judged++
			k := get(ev.Key)
			if !k.sent {
				add("release-unknown-key", fmt.Sprintf("the core announced the release (%s) of %s, a key the shim never sent", ev.Term, ev.Key))
			}
			k.bound = false
		}
	}
	return out, judged
}
