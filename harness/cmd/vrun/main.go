package main

import (
	"flag"
	"fmt"
	"os"
	"strconv"
	"strings"
	"verifharness/shim"

	"verifharness/driver"
	_ "verifharness/registry"
)

func main() {
	// the core keeps the first logger it sees: install the production-mode logger before anything in the core logs
	// (its fallback logger is in development mode, where a DPanic log line panics the process)
	shim.InitLogger()
	if len(os.Args) < 2 {
		fmt.Println("usage: vrun check Cxx [--tier quick|thorough] | vrun worker ...")
		os.Exit(2)
	}
	switch os.Args[1] {
	case "worker":
		fs := flag.NewFlagSet("worker", flag.ExitOnError)
		prop := fs.String("prop", "", "")
		tier := fs.String("tier", "quick", "")
		idx := fs.String("idx", "", "")
		seed := fs.Uint64("seed", 1, "")
		out := fs.String("out", "", "")
		replays := fs.String("replays", "", "")
		cmdlog := fs.String("cmdlog", "", "")
		_ = fs.Parse(os.Args[2:])
		var idxs []int
		for _, s := range strings.Split(*idx, ",") {
			if s == "" {
				continue
			}
			v, _ := strconv.Atoi(s)
			idxs = append(idxs, v)
		}
		os.Exit(driver.Worker(*prop, *tier, idxs, *seed, *out, *replays, *cmdlog))
	case "check":
		args := os.Args[2:]
		prop := ""
		var rest []string
		for _, a := range args {
			if prop == "" && !strings.HasPrefix(a, "-") && len(a) == 3 && a[0] == 'C' {
				prop = a
				continue
			}
			rest = append(rest, a)
		}
		fs := flag.NewFlagSet("check", flag.ExitOnError)
		tier := fs.String("tier", "", "")
		cases := fs.Int("cases", 0, "")
		jobs := fs.Int("jobs", 0, "")
		replay := fs.String("replay", "", "")
		_ = fs.Bool("race", false, "")
		_ = fs.Parse(rest)
		t := *tier
		if t == "" {
			t = os.Getenv("VERIF_TIER")
		}
		if t != "thorough" {
			t = "quick"
		}
		if *replay != "" {
			os.Exit(driver.Replay(prop, *replay))
		}
		os.Exit(driver.Check(prop, t, *cases, *jobs))
	case "caseidx":
		// vrun caseidx <prop> <case seed hex> : which case index has this seed (for VERIF_SEED, default 1)
		want, _ := strconv.ParseUint(strings.TrimPrefix(os.Args[3], "0x"), 16, 64)
		vs := uint64(1)
		if v, err := strconv.ParseUint(os.Getenv("VERIF_SEED"), 10, 64); err == nil {
			vs = v
		}
		for i := 0; i < 100000; i++ {
			if driver.CaseSeed(vs, os.Args[2], i) == want {
				fmt.Println(i)
				return
			}
		}
		fmt.Println("not found")
	case "debugcase":
		// vrun debugcase <prop> <from> <to> : run cases in-process and print every violation of every property
		prop := os.Args[2]
		from, _ := strconv.Atoi(os.Args[3])
		to, _ := strconv.Atoi(os.Args[4])
		for i := from; i < to; i++ {
			seed := driver.CaseSeed(1, prop, i)
			tier := "quick"
			if os.Getenv("VERIF_TIER") == "thorough" {
				tier = "thorough"
			}
			r := driver.Specs[prop].Run(prop, seed, i, tier, "/tmp", nil)
			if os.Getenv("VERIF_VERBOSE") != "" && r.Sample != nil {
				fmt.Printf("---- case %d seed %#x obs %v\n", i, seed, r.Obs)
				for _, o := range r.Sample.Ops {
					fmt.Println("   ", o)
				}
			}
			for _, v := range r.Violations {
				fmt.Printf("case %d seed %#x step %d op %q: %s: %s\n", i, seed, v.Step, v.Op, v.Signature, v.Text)
			}
		}
	default:
		fmt.Println("unknown command", os.Args[1])
		os.Exit(2)
	}
}
