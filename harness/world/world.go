// Package world takes snapshots of the observable state of a core through its exported getters, DAOs and the
// verif hooks. A snapshot is plain data: oracles are pure functions over snapshots.
package world

import (
	"sort"

	"github.com/apache/yunikorn-core/pkg/scheduler"
	"github.com/apache/yunikorn-core/pkg/scheduler/objects"
	"github.com/apache/yunikorn-core/pkg/scheduler/ugm"
	"github.com/apache/yunikorn-core/pkg/webservice/dao"

	"verifharness/res"
)

type Alloc struct {
	Key         string              `json:"key"`
	App         string              `json:"app"`
	Node        string              `json:"node,omitempty"`
	Res         res.R               `json:"res"`
	Allocated   bool                `json:"allocated,omitempty"`
	Placeholder bool                `json:"ph,omitempty"`
	Released    bool                `json:"released,omitempty"`
	Preempted   bool                `json:"preempted,omitempty"`
	Foreign     bool                `json:"foreign,omitempty"`
	TaskGroup   string              `json:"tg,omitempty"`
	Prio        int32               `json:"prio,omitempty"`
	ReqNode     string              `json:"reqNode,omitempty"`
	ReleaseKey  string              `json:"releaseKey,omitempty"`
	Triggered   bool                `json:"triggeredPreemption,omitempty"`
	AllowOther  bool                `json:"allowPreemptOther,omitempty"`
	AllowSelf   bool                `json:"allowPreemptSelf,omitempty"`
	Originator  bool                `json:"originator,omitempty"`
	CreateUnix  int64               `json:"createUnix,omitempty"`
	PHUsed      bool                `json:"phUsed,omitempty"`
	Ptr         *objects.Allocation `json:"-"`
}

type Resv struct {
	App, Key, Node string
	ReqNode        bool
}

type Node struct {
	ID          string            `json:"id"`
	Cap         res.R             `json:"cap"`
	Occupied    res.R             `json:"occupied"`
	Allocated   res.R             `json:"allocated"`
	Available   res.R             `json:"available"`
	Schedulable bool              `json:"schedulable"`
	Allocs      map[string]*Alloc `json:"allocs"`
	Resvs       []Resv            `json:"resvs,omitempty"`
}

type Queue struct {
	Path              string            `json:"path"`
	Parent            string            `json:"parent,omitempty"`
	Leaf              bool              `json:"leaf"`
	Managed           bool              `json:"managed"`
	State             string            `json:"state"`
	Max               res.R             `json:"max"` // nil = not set; keeps explicit zeros
	Guaranteed        res.R             `json:"guaranteed"`
	Allocated         res.R             `json:"allocated"`
	Pending           res.R             `json:"pending"`
	Preempting        res.R             `json:"preempting"`
	MaxApps           uint64            `json:"maxApps,omitempty"`
	Running           uint64            `json:"running,omitempty"`
	Allocating        []string          `json:"allocating,omitempty"`
	Props             map[string]string `json:"props,omitempty"`
	Children          []string          `json:"children,omitempty"`
	Apps              []string          `json:"apps,omitempty"`
	ReservedApps      map[string]int    `json:"reservedApps,omitempty"`
	PreemptionEnabled bool              `json:"preemptionEnabled"`
	PreemptFence      bool              `json:"preemptFence,omitempty"`
	PrioFence         bool              `json:"prioFence,omitempty"`
	PrioOffset        int32             `json:"prioOffset,omitempty"`
	SortPolicy        string            `json:"sort,omitempty"`
	PrioSort          bool              `json:"prioSort,omitempty"`
	PreemptDelay      string            `json:"preemptDelay,omitempty"`
	QuotaDelay        string            `json:"quotaDelay,omitempty"`
	CurPrio           int32             `json:"curPrio,omitempty"`
	Template          *dao.TemplateInfo `json:"template,omitempty"`
	EffMax            res.R             `json:"effMax"`               // GetMaxResource(): hierarchy-limited maximum
	QuotaStart        int64             `json:"quotaStart,omitempty"` // unix nano of the quota preemption start time, 0 = not set
}

type PHData struct {
	TaskGroup                 string
	Count, Replaced, TimedOut int64
	MinRes                    res.R
}

type App struct {
	ID        string               `json:"id"`
	Where     string               `json:"where"` // live | completed | rejected
	Queue     string               `json:"queue"`
	HasQueue  bool                 `json:"hasQueue"`
	State     string               `json:"state"`
	User      string               `json:"user"`
	Groups    []string             `json:"groups,omitempty"`
	Pending   res.R                `json:"pending"`
	Allocated res.R                `json:"allocated"`
	PHAlloc   res.R                `json:"phAllocated"`
	PHAsk     res.R                `json:"phAsk,omitempty"`
	Asks      map[string]*Alloc    `json:"asks"`   // all requests (allocated or not)
	Allocs    map[string]*Alloc    `json:"allocs"` // satisfied allocations
	Resvs     []Resv               `json:"resvs,omitempty"`
	PH        []PHData             `json:"ph,omitempty"`
	StateLog  []string             `json:"stateLog"`
	Forced    bool                 `json:"forced,omitempty"`
	PHTimer   bool                 `json:"phTimer,omitempty"`
	StTimer   bool                 `json:"stTimer,omitempty"`
	Sorted    []string             `json:"-"`
	Ptr       *objects.Application `json:"-"`
}

// QT is one node of a user or group tracker tree.
type QT struct {
	Path    string   `json:"path"`
	Usage   res.R    `json:"usage"`
	MaxRes  res.R    `json:"maxRes"` // nil = no limit
	MaxApps uint64   `json:"maxApps,omitempty"`
	Running []string `json:"running,omitempty"`
}

type Tracker struct {
	Name   string            `json:"name"`
	Queues map[string]*QT    `json:"queues"`
	Groups map[string]string `json:"groups,omitempty"` // user tracker: app -> group
	Apps   []string          `json:"apps,omitempty"`   // group tracker
}

type World struct {
	Nodes     map[string]*Node    `json:"nodes"`
	Queues    map[string]*Queue   `json:"queues"`
	Apps      map[string]*App     `json:"apps"`
	Done      map[string]*App     `json:"done,omitempty"`     // completed map (key = id + suffix)
	Rejected  map[string]*App     `json:"rejected,omitempty"` // rejected map
	Users     map[string]*Tracker `json:"users,omitempty"`
	Groups    map[string]*Tracker `json:"groups,omitempty"`
	NAllocs   int                 `json:"nAllocs"`
	NResv     int                 `json:"nResv"`
	NPH       int                 `json:"nPH"`
	Foreign   []string            `json:"foreign,omitempty"`
	Total     res.R               `json:"total"`
	PartState string              `json:"partState"`
	Rules     []string            `json:"rules,omitempty"`
	NodeSort  string              `json:"nodeSort,omitempty"`
}

func allocOf(a *objects.Allocation) *Alloc {
	out := &Alloc{
		Key: a.GetAllocationKey(), App: a.GetApplicationID(), Node: a.GetNodeID(), Res: res.From(a.GetAllocatedResource()),
		Allocated: a.IsAllocated(), Placeholder: a.IsPlaceholder(), Released: a.IsReleased(), Preempted: a.IsPreempted(),
		Foreign: a.IsForeign(), TaskGroup: a.GetTaskGroup(), Prio: a.GetPriority(), ReqNode: a.GetRequiredNode(),
		Triggered: a.HasTriggeredPreemption(), AllowOther: a.IsAllowPreemptOther(), AllowSelf: a.IsAllowPreemptSelf(),
		Originator: a.IsOriginator(), CreateUnix: a.GetCreateTime().Unix(), PHUsed: a.IsPlaceholderUsed(), Ptr: a,
	}
	if r := a.GetRelease(); r != nil {
		out.ReleaseKey = r.GetAllocationKey()
	}
	return out
}

func appOf(a *objects.Application, where string) *App {
	u := a.GetUser()
	out := &App{
		ID: a.ApplicationID, Where: where, Queue: a.GetQueuePath(), HasQueue: a.GetQueue() != nil, State: a.CurrentState(),
		User: u.User, Groups: u.Groups, Pending: res.From(a.GetPendingResource()), Allocated: res.From(a.GetAllocatedResource()),
		PHAlloc: res.From(a.GetPlaceholderResource()), PHAsk: res.From(a.GetPlaceholderAsk()),
		Asks: map[string]*Alloc{}, Allocs: map[string]*Alloc{}, Forced: a.IsCreateForced(), Ptr: a,
	}
	for _, r := range a.GetAllRequests() {
		out.Asks[r.GetAllocationKey()] = allocOf(r)
	}
	for _, r := range a.GetAllAllocations() {
		out.Allocs[r.GetAllocationKey()] = allocOf(r)
	}
	for _, r := range a.VerifReservations() {
		out.Resvs = append(out.Resvs, Resv{App: r.AppID, Key: r.AllocKey, Node: r.NodeID, ReqNode: r.RequiredNode})
	}
	sort.Slice(out.Resvs, func(i, j int) bool { return out.Resvs[i].Key < out.Resvs[j].Key })
	for _, p := range a.GetAllPlaceholderData() {
		out.PH = append(out.PH, PHData{TaskGroup: p.TaskGroupName, Count: p.Count, Replaced: p.Replaced, TimedOut: p.TimedOut, MinRes: res.From(p.MinResource)})
	}
	sort.Slice(out.PH, func(i, j int) bool { return out.PH[i].TaskGroup < out.PH[j].TaskGroup })
	for _, e := range a.GetStateLog() {
		out.StateLog = append(out.StateLog, e.ApplicationState)
	}
	out.PHTimer, out.StTimer = a.VerifTimersArmed()
	out.Sorted = a.VerifSortedRequestKeys()
	return out
}

func walkQueues(q *objects.Queue, out map[string]*Queue) {
	d := q.GetPartitionQueueDAOInfo(false)
	wq := &Queue{
		Path: d.QueueName, Parent: d.Parent, Leaf: d.IsLeaf, Managed: d.IsManaged, State: d.Status,
		Max: res.FromDAOKeep(d.MaxResource), Guaranteed: res.FromDAO(d.GuaranteedResource), Allocated: res.FromDAO(d.AllocatedResource),
		Pending: res.FromDAO(d.PendingResource), Preempting: res.FromDAO(d.PreemptingResource), MaxApps: d.MaxRunningApps,
		Running: d.RunningApps, Allocating: d.AllocatingAcceptedApps, Props: d.Properties, Children: d.ChildNames,
		ReservedApps: q.GetReservedApps(), PreemptionEnabled: d.PreemptionEnabled, PreemptFence: d.IsPreemptionFence,
		PrioFence: d.IsPriorityFence, PrioOffset: d.PriorityOffset, SortPolicy: d.SortingPolicy, PrioSort: d.PrioritySorting,
		PreemptDelay: d.PreemptionDelay, QuotaDelay: d.QuotaPreemptionDelay, CurPrio: d.CurrentPriority, Template: d.TemplateInfo,
		EffMax: res.FromKeep(q.GetMaxResource()),
	}
	if t := q.VerifQuotaPreemptionStart(); !t.IsZero() {
		wq.QuotaStart = t.UnixNano()
	}
	sort.Strings(wq.Allocating)
	sort.Strings(wq.Children)
	for id := range q.GetCopyOfApps() {
		wq.Apps = append(wq.Apps, id)
	}
	sort.Strings(wq.Apps)
	out[wq.Path] = wq
	for _, c := range q.GetCopyOfChildren() {
		walkQueues(c, out)
	}
}

func walkTracker(d *dao.ResourceUsageDAOInfo, out map[string]*QT) {
	if d == nil {
		return
	}
	qt := &QT{Path: d.QueuePath, Usage: res.FromDAO(d.ResourceUsage), MaxRes: nonEmpty(res.FromDAOKeep(d.MaxResources)), MaxApps: d.MaxApplications, Running: append([]string{}, d.RunningApplications...)}
	sort.Strings(qt.Running)
	out[qt.Path] = qt
	for _, c := range d.Children {
		walkTracker(c, out)
	}
}

// Snap takes a snapshot of the partition. It must only be called at a quiescent point.
func Snap(pc *scheduler.PartitionContext) *World {
	w := &World{Nodes: map[string]*Node{}, Queues: map[string]*Queue{}, Apps: map[string]*App{}, Done: map[string]*App{}, Rejected: map[string]*App{},
		Users: map[string]*Tracker{}, Groups: map[string]*Tracker{}}
	if pc == nil {
		return w
	}
	w.PartState = pc.GetCurrentState()
	w.NAllocs, w.NResv, w.NPH = pc.VerifCounters()
	w.Foreign = pc.VerifForeignKeys()
	sort.Strings(w.Foreign)
	w.Total = res.From(pc.GetTotalPartitionResource())
	for _, n := range pc.GetNodes() {
		wn := &Node{ID: n.NodeID, Cap: res.From(n.GetCapacity()), Occupied: res.From(n.GetOccupiedResource()), Allocated: res.From(n.GetAllocatedResource()),
			Available: res.From(n.GetAvailableResource()), Schedulable: n.IsSchedulable(), Allocs: map[string]*Alloc{}}
		for _, a := range n.GetYunikornAllocations() {
			wn.Allocs[a.GetAllocationKey()] = allocOf(a)
		}
		for _, a := range n.GetForeignAllocations() {
			wn.Allocs[a.GetAllocationKey()] = allocOf(a)
		}
		for _, r := range n.VerifReservations() {
			wn.Resvs = append(wn.Resvs, Resv{App: r.AppID, Key: r.AllocKey, Node: r.NodeID, ReqNode: r.RequiredNode})
		}
		sort.Slice(wn.Resvs, func(i, j int) bool { return wn.Resvs[i].Key < wn.Resvs[j].Key })
		w.Nodes[wn.ID] = wn
	}
	if root := pc.GetQueue("root"); root != nil {
		walkQueues(root, w.Queues)
	}
	for _, a := range pc.GetApplications() {
		w.Apps[a.ApplicationID] = appOf(a, "live")
	}
	for _, a := range pc.GetCompletedApplications() {
		w.Done[a.ApplicationID] = appOf(a, "completed")
	}
	for _, a := range pc.GetRejectedApplications() {
		w.Rejected[a.ApplicationID] = appOf(a, "rejected")
	}
	m := ugm.GetUserManager()
	for _, ut := range m.GetUserTrackers() {
		d := ut.GetResourceUsageDAOInfo()
		t := &Tracker{Name: d.UserName, Queues: map[string]*QT{}, Groups: d.Groups}
		walkTracker(d.Queues, t.Queues)
		w.Users[t.Name] = t
	}
	for _, gt := range m.GetGroupTrackers() {
		d := gt.GetResourceUsageDAOInfo()
		t := &Tracker{Name: d.GroupName, Queues: map[string]*QT{}, Apps: append([]string{}, d.Applications...)}
		sort.Strings(t.Apps)
		walkTracker(d.Queues, t.Queues)
		w.Groups[t.Name] = t
	}
	for _, r := range pc.GetPlacementRules() {
		w.Rules = append(w.Rules, r.Name)
	}
	w.NodeSort = pc.GetNodeSortingPolicyType().String()
	return w
}

func nonEmpty(r res.R) res.R {
	if len(r) == 0 {
		return nil
	}
	return r
}
