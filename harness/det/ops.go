// Package det is the deterministic single-driver engine: a seeded operation sequence is executed against a core
// started with manual scheduling, with a settle barrier and a full snapshot after every step, and the oracles are
// evaluated on every step record (pre snapshot, operation, trace events, post snapshot).
package det

import (
	"fmt"
	"sort"
	"strings"

	"verifharness/res"
)

// Op is one operation of a history. Every generated value is explicit, so a replay does not need the generator.
type Op struct {
	Kind string `json:"kind"`
	Node string `json:"node,omitempty"`
	App  string `json:"app,omitempty"`
	Key  string `json:"key,omitempty"`
	Res  res.R  `json:"res,omitempty"`
	// application
	Queue     string            `json:"queue,omitempty"`
	User      string            `json:"user,omitempty"`
	Groups    []string          `json:"groups,omitempty"`
	Tags      map[string]string `json:"tags,omitempty"`
	PHAsk     res.R             `json:"phAsk,omitempty"`
	GangStyle string            `json:"gangStyle,omitempty"`
	// ask / allocation
	Prio         int32  `json:"prio,omitempty"`
	ReqNode      string `json:"reqNode,omitempty"`
	TaskGroup    string `json:"taskGroup,omitempty"`
	Placeholder  bool   `json:"placeholder,omitempty"`
	AgeSec       int64  `json:"ageSec,omitempty"`
	PreemptOther bool   `json:"preemptOther,omitempty"`
	PreemptSelf  bool   `json:"preemptSelf,omitempty"`
	Originator   bool   `json:"originator,omitempty"`
	ForeignType  string `json:"foreignType,omitempty"`
	// release / confirm
	Term string `json:"term,omitempty"`
	Idx  int    `json:"idx,omitempty"`
	// scheduling
	N int `json:"n,omitempty"`
	// reload
	Config string `json:"config,omitempty"`
}

const (
	OpAddNode     = "addNode"
	OpAddNodeDr   = "addNodeDraining"
	OpUpdNode     = "updNode"
	OpDrain       = "drain"
	OpUndrain     = "undrain"
	OpDecom       = "decom"
	OpAddApp      = "addApp"
	OpRmApp       = "rmApp"
	OpAsk         = "ask"
	OpUpdAsk      = "updAsk"  // same key, new resources (pending or bound)
	OpBound       = "bound"   // allocation reported as already bound by the RM
	OpBindAsk     = "bindAsk" // existing pending ask reported as bound by the RM
	OpRelease     = "release" // shim initiated STOPPED_BY_RM; key "" = all
	OpForeign     = "foreign"
	OpForeignUpd  = "foreignUpd"
	OpForeignRm   = "foreignRm"
	OpConfirm     = "confirm"    // deliver queued confirmation Idx
	OpDupConfirm  = "dupConfirm" // deliver queued confirmation Idx but keep it queued
	OpDropConfirm = "dropConfirm"
	OpReconfirm   = "reconfirm" // re-send an earlier delivered confirmation (duplicate, late)
	OpSched       = "sched"
	OpFirePH      = "firePH"
	OpFireState   = "fireState"
	OpReload      = "reload"
	OpQuotaPre    = "quotaPreempt"
	OpCleanup     = "cleanup"
	OpEcho        = "echo"     // re-send a bound allocation unchanged (idempotence)
	OpPredDeny    = "predDeny" // from now on the predicate plugin of the shim denies (Key, Node) (explicit in the op, so replays agree)
)

func (o *Op) String() string {
	var b strings.Builder
	b.WriteString(o.Kind)
	add := func(k, v string) {
		if v != "" {
			fmt.Fprintf(&b, " %s=%s", k, v)
		}
	}
	add("node", o.Node)
	add("app", o.App)
	add("key", o.Key)
	if o.Res != nil {
		add("res", o.Res.String())
	}
	add("queue", o.Queue)
	add("user", o.User)
	if len(o.Groups) > 0 {
		add("groups", strings.Join(o.Groups, ","))
	}
	if len(o.Tags) > 0 {
		keys := make([]string, 0, len(o.Tags))
		for k := range o.Tags {
			keys = append(keys, k)
		}
		sort.Strings(keys)
		for _, k := range keys {
			add("tag."+k, o.Tags[k])
		}
	}
	if o.PHAsk != nil {
		add("phAsk", o.PHAsk.String())
	}
	add("gang", o.GangStyle)
	if o.Prio != 0 {
		add("prio", fmt.Sprint(o.Prio))
	}
	add("reqNode", o.ReqNode)
	add("tg", o.TaskGroup)
	if o.Placeholder {
		add("ph", "1")
	}
	if o.AgeSec != 0 {
		add("age", fmt.Sprint(o.AgeSec))
	}
	if o.PreemptOther {
		add("preemptOther", "1")
	}
	if o.PreemptSelf {
		add("preemptSelf", "1")
	}
	add("term", o.Term)
	if o.Kind == OpConfirm || o.Kind == OpDupConfirm || o.Kind == OpDropConfirm {
		add("idx", fmt.Sprint(o.Idx))
	}
	if o.N != 0 {
		add("n", fmt.Sprint(o.N))
	}
	if o.Config != "" {
		add("config", fmt.Sprintf("<%d bytes>", len(o.Config)))
	}
	return b.String()
}
