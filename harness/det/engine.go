package det

import (
	"encoding/json"
	"fmt"
	"os"
	"runtime"
	"strings"
	"sync"
	"time"

	"github.com/apache/yunikorn-core/pkg/scheduler/objects"
	siCommon "github.com/apache/yunikorn-scheduler-interface/lib/go/common"
	"github.com/apache/yunikorn-scheduler-interface/lib/go/si"

	"verifharness/shim"
	"verifharness/world"
)

// Violation is one oracle alarm.
type Violation struct {
	Prop      string `json:"prop"`
	Rule      string `json:"rule"`
	Signature string `json:"signature"`
	Text      string `json:"text"`
	Step      int    `json:"step"`
	Op        string `json:"op"`
}

// Step is the record the oracles look at.
type Step struct {
	N     int
	Op    *Op
	Pre   *world.World
	Post  *world.World
	Evs   []*shim.Ev
	Preds []shim.PredRec
	// Schedule results per scheduling cycle of this step (a sched op with N>1 is split into N steps by the engine)
}

// Engine runs one history against one core.
type Engine struct {
	predMu   sync.Mutex
	predDeny map[string]bool

	C                      *shim.Core
	V                      *View
	Cur                    *world.World
	StepN                  int
	Ops                    []*Op // executed operations
	Viol                   []Violation
	Obs                    map[string]int64 // observation counters (evidence)
	Inconclusive           string
	Props                  map[string]bool // properties whose oracles are active
	Cmd                    *os.File        // command log: every op is written before it is executed
	ConfigYAML             string
	Configs                []string // all configs successfully loaded, in order
	Hist                   *History
	KeepTrace              bool
	lastStep               *Step
	CheckProp              string // the property this run is for
	quotaPreemptionEnabled bool
	GangStyle              map[string]string // application id -> gang scheduling style as submitted (Hard, or Soft for anything else)
	lastChanged            bool
	barrierTimeout         time.Duration
}

// History carries cross-step facts oracles need (monotone information, not state of the core).
type History struct {
	NodeForced      map[string]bool     // node saw an externally forced change since it was last non-negative
	Preempted       map[string]int      // key -> number of PREEMPTED_BY_SCHEDULER announcements
	AppStates       map[string][]string // per app: state sequence from updatedApp stream
	LimitsChanged   bool
	Reloads         int
	ReloadsRejected int
	SwapsConfirmed  int
	States          map[string]bool
}

func NewEngine(c *shim.Core, cfg string) *Engine {
	e := &Engine{C: c, V: NewView(), Obs: map[string]int64{}, Props: map[string]bool{}, ConfigYAML: cfg, Configs: []string{cfg}, quotaPreemptionEnabled: strings.Contains(cfg, "quotapreemptionenabled: true"),
		Hist:           &History{NodeForced: map[string]bool{}, Preempted: map[string]int{}, AppStates: map[string][]string{}, States: map[string]bool{}},
		barrierTimeout: 20 * time.Second}
	return e
}

func (e *Engine) violate(prop, rule, sig, text string) {
	if len(e.Viol) > 200 {
		return
	}
	op := ""
	if e.lastStep != nil && e.lastStep.Op != nil {
		op = e.lastStep.Op.String()
	}
	e.Viol = append(e.Viol, Violation{Prop: prop, Rule: rule, Signature: prop + "/" + rule + sig + "@" + e.opSig(), Text: text, Step: e.StepN, Op: op})
}

func (e *Engine) logCmd(o *Op) {
	if e.Cmd != nil {
		b, _ := json.Marshal(o)
		fmt.Fprintf(e.Cmd, "OP %d %s\n", e.StepN, b)
	}
}

// settle waits for everything in flight: barrier, asynchronous move of terminated applications.
func (e *Engine) settle() bool {
	if !e.C.Barrier(e.barrierTimeout) {
		e.Inconclusive = "barrier watchdog"
		return false
	}
	pc := e.C.Partition()
	if pc == nil {
		return true
	}
	// go moveTerminatedApp: wait (bounded) until no terminated application is left in the live map
	deadline := time.Now().Add(5 * time.Second)
	for {
		pending := false
		for _, a := range pc.GetApplications() {
			st := a.CurrentState()
			if st == objects.Completed.String() || st == objects.Failed.String() {
				pending = true
			}
		}
		if !pending {
			break
		}
		if time.Now().After(deadline) {
			e.Inconclusive = "terminated application not moved within 5s"
			return false
		}
		runtime.Gosched()
		time.Sleep(20 * time.Microsecond)
	}
	// the move may have produced messages
	if !e.C.Barrier(e.barrierTimeout) {
		e.Inconclusive = "barrier watchdog"
		return false
	}
	return true
}

// Init takes the first snapshot.
func (e *Engine) Init() bool {
	// explicit predicate denials requested by operations come before the seeded answers of the case
	base := e.C.S.Pred
	e.C.S.Pred = func(key, node string, allocate bool) bool {
		e.predMu.Lock()
		denied := e.predDeny[key+"|"+node]
		e.predMu.Unlock()
		if denied {
			return false
		}
		if base == nil {
			return true
		}
		return base(key, node, allocate)
	}
	if !e.settle() {
		return false
	}
	e.Cur = world.Snap(e.C.Partition())
	return true
}

func (e *Engine) creationTags(o *Op) map[string]string {
	tags := map[string]string{}
	for k, v := range o.Tags {
		tags[k] = v
	}
	tags[siCommon.CreationTime] = shim.CreationTag(o.AgeSec)
	if o.ReqNode != "" {
		tags[siCommon.DomainYuniKorn+siCommon.KeyRequiredNode] = o.ReqNode
	}
	return tags
}

func termOf(s string) si.TerminationType {
	if v, ok := si.TerminationType_value[s]; ok {
		return si.TerminationType(v)
	}
	return si.TerminationType_STOPPED_BY_RM
}

func (e *Engine) allocSpec(o *Op) shim.AllocSpec {
	return shim.AllocSpec{App: o.App, Key: o.Key, Node: o.Node, Res: o.Res, Prio: o.Prio, Tags: e.creationTags(o), TaskGroup: o.TaskGroup,
		Placeholder: o.Placeholder, Originator: o.Originator, PreemptOther: o.PreemptOther, PreemptSelf: o.PreemptSelf}
}

// exec performs the operation against the core (no waiting).
func (e *Engine) exec(o *Op) {
	c := e.C
	switch o.Kind {
	case OpAddNode:
		_ = c.SendNode(shim.NodeSpec{ID: o.Node, Cap: o.Res, Action: si.NodeInfo_CREATE, Attrs: o.Tags})
	case OpAddNodeDr:
		_ = c.SendNode(shim.NodeSpec{ID: o.Node, Cap: o.Res, Action: si.NodeInfo_CREATE_DRAIN, Attrs: o.Tags})
	case OpUpdNode:
		_ = c.SendNode(shim.NodeSpec{ID: o.Node, Cap: o.Res, Action: si.NodeInfo_UPDATE})
	case OpDrain:
		_ = c.SendNode(shim.NodeSpec{ID: o.Node, Action: si.NodeInfo_DRAIN_NODE})
	case OpUndrain:
		_ = c.SendNode(shim.NodeSpec{ID: o.Node, Action: si.NodeInfo_DRAIN_TO_SCHEDULABLE})
	case OpDecom:
		_ = c.SendNode(shim.NodeSpec{ID: o.Node, Action: si.NodeInfo_DECOMISSION})
	case OpAddApp:
		if e.GangStyle == nil {
			e.GangStyle = map[string]string{}
		}
		if o.GangStyle == "Hard" {
			e.GangStyle[o.App] = "Hard"
		} else {
			e.GangStyle[o.App] = "Soft"
		}
		_ = c.SendApp(shim.AppSpec{ID: o.App, Queue: o.Queue, User: o.User, Groups: o.Groups, Tags: o.Tags, PlaceholderAsk: o.PHAsk, GangStyle: o.GangStyle, TimeoutMs: 3600 * 1000 * 24})
	case OpRmApp:
		_ = c.SendRemoveApp(o.App)
	case OpAsk, OpUpdAsk, OpBound, OpBindAsk, OpEcho:
		_ = c.SendAlloc(e.allocSpec(o))
	case OpForeign, OpForeignUpd:
		spec := e.allocSpec(o)
		ft := o.ForeignType
		if ft == "" {
			ft = siCommon.AllocTypeDefault
		}
		spec.Tags[siCommon.Foreign] = ft
		_ = c.SendAlloc(spec)
	case OpForeignRm:
		_ = c.SendRelease("", o.Key, si.TerminationType_STOPPED_BY_RM, false)
	case OpRelease:
		_ = c.SendRelease(o.App, o.Key, si.TerminationType_STOPPED_BY_RM, false)
	case OpConfirm, OpDupConfirm:
		_ = c.SendRelease(o.App, o.Key, termOf(o.Term), true)
	case OpReconfirm:
		_ = c.SendRelease(o.App, o.Key, termOf(o.Term), true)
	case OpDropConfirm:
		c.S.Record(&shim.Ev{Dir: "act", Kind: "dropConfirm", App: o.App, Key: o.Key, Term: o.Term})
	case OpSched:
		c.Schedule()
	case OpFirePH:
		c.S.Record(&shim.Ev{Dir: "act", Kind: "firePH", App: o.App})
		if a := c.Partition().GetApplication(o.App); a != nil {
			fired := a.VerifFirePlaceholderTimer()
			c.S.Record(&shim.Ev{Dir: "act", Kind: "firedPH", App: o.App, Flag: fired})
		}
	case OpFireState:
		c.S.Record(&shim.Ev{Dir: "act", Kind: "fireState", App: o.App})
		if a := c.Partition().GetApplication(o.App); a != nil {
			fired := a.VerifFireStateTimer()
			c.S.Record(&shim.Ev{Dir: "act", Kind: "firedState", App: o.App, Flag: fired})
		}
	case OpReload:
		if err := c.Reload(o.Config); err == nil {
			e.Hist.Reloads++
			e.quotaPreemptionEnabled = strings.Contains(o.Config, "quotapreemptionenabled: true")
			e.Configs = append(e.Configs, o.Config)
			e.ConfigYAML = o.Config
		}
	case OpQuotaPre:
		c.S.Record(&shim.Ev{Dir: "act", Kind: "quotaPreempt"})
		if !c.Sched.VerifQuotaPreemptionOnce() {
			e.Inconclusive = "quota preemption did not finish"
		}
	case OpPredDeny:
		e.predMu.Lock()
		if e.predDeny == nil {
			e.predDeny = map[string]bool{}
		}
		e.predDeny[o.Key+"|"+o.Node] = true
		e.predMu.Unlock()
		c.S.Record(&shim.Ev{Dir: "act", Kind: "predDeny", Key: o.Key, Node: o.Node})
	case OpCleanup:
		c.S.Record(&shim.Ev{Dir: "act", Kind: "cleanup"})
		c.Partition().VerifCleanup()
	default:
		panic("unknown op " + o.Kind)
	}
}

// Do executes one operation as one step (a sched with N cycles becomes N steps) and evaluates the oracles.
// Returns false when the case must stop (inconclusive).
func (e *Engine) Do(o *Op) bool {
	if o.Kind == OpSched && o.N > 1 {
		for i := 0; i < o.N; i++ {
			if !e.Do(&Op{Kind: OpSched, N: 1}) {
				return false
			}
			// stop early when a cycle neither allocated nor changed anything
			if e.lastStep != nil && len(e.lastStep.Evs) <= 1 && !e.lastChanged {
				break
			}
		}
		return true
	}
	if e.Inconclusive != "" {
		return false
	}
	// resolve confirmation ops against the queue now (explicit values are stored in the op for replay)
	if (o.Kind == OpConfirm || o.Kind == OpDupConfirm || o.Kind == OpDropConfirm) && o.Key == "" {
		q := e.C.S.Confirms()
		if len(q) == 0 {
			return true
		}
		i := o.Idx % len(q)
		o.App, o.Key, o.Term = q[i].App, q[i].Key, q[i].Term.String()
		if o.Kind != OpDupConfirm {
			e.C.S.RemoveConfirm(i)
		}
		if o.Kind != OpDropConfirm {
			e.V.Delivered = append(e.V.Delivered, q[i])
		}
	} else if o.Kind == OpConfirm || o.Kind == OpDropConfirm {
		// replay: remove the matching entry
		for i, c := range e.C.S.Confirms() {
			if c.Key == o.Key && c.Term.String() == o.Term {
				e.C.S.RemoveConfirm(i)
				break
			}
		}
	}
	e.StepN++
	e.Ops = append(e.Ops, o)
	e.logCmd(o)
	t0 := e.C.S.TraceLen()
	p0 := e.C.S.PredLen()
	st := &Step{N: e.StepN, Op: o, Pre: e.Cur}
	e.lastStep = st
	e.exec(o)
	if e.Inconclusive != "" {
		return false
	}
	if !e.settle() {
		return false
	}
	st.Evs = e.C.S.TraceFrom(t0)
	st.Preds = e.C.S.PredsFrom(p0)
	st.Post = world.Snap(e.C.Partition())
	e.Cur = st.Post
	e.lastChanged = worldChanged(st.Pre, st.Post)
	e.check(st)
	// a step that violates the property under check ends the case: whatever follows would be judged on a state
	// that is already wrong. Violations of other properties do not end it (their own checks report them); the driver
	// discards violations that come after a known finding of another property as tainted.
	return e.Inconclusive == "" && !e.stopNow()
}

func (e *Engine) stopNow() bool {
	if len(e.Viol) >= 40 {
		return true
	}
	for _, v := range e.Viol {
		if v.Prop == e.CheckProp || e.CheckProp == "" {
			return true
		}
	}
	return false
}

// opSig describes the step in which a violation appeared: operation kind plus the facts about its target that
// discriminate one failing history from another (used in violation signatures and known findings).
func (e *Engine) opSig() string {
	st := e.lastStep
	if st == nil || st.Op == nil {
		return "init"
	}
	o := st.Op
	s := o.Kind
	pre := st.Pre
	var ask *world.Alloc
	if pre != nil {
		if a := pre.Apps[o.App]; a != nil {
			ask = a.Asks[o.Key]
			if ask == nil {
				ask = a.Allocs[o.Key]
			}
		}
	}
	askState := func() string {
		switch {
		case ask == nil:
			return "+unknown-key"
		case ask.Placeholder && ask.Released && ask.ReleaseKey != "":
			return "+ph-in-swap"
		case ask.Placeholder && ask.Released:
			return "+ph-released"
		case ask.Placeholder && ask.Allocated:
			return "+ph-bound"
		case ask.Placeholder:
			return "+ph-pending"
		case ask.Allocated && ask.ReleaseKey != "":
			return "+real-in-swap"
		case ask.Allocated && ask.Preempted:
			return "+preempted"
		case ask.Allocated:
			return "+bound"
		default:
			return "+pending"
		}
	}
	switch o.Kind {
	case OpUpdAsk, OpBindAsk, OpEcho:
		s += askState()
		if o.Kind == OpBindAsk && pre != nil {
			if a := pre.Apps[o.App]; a != nil {
				for _, r := range a.Resvs {
					if r.Key == o.Key {
						s += "+reserved"
					}
				}
			}
		}
	case OpRelease:
		if o.Key == "" {
			s += "+all"
			if pre != nil {
				if a := pre.Apps[o.App]; a != nil && !a.Pending.IsZero() {
					s += "+pending-asks"
				}
			}
		} else {
			s += askState()
		}
	case OpConfirm, OpDupConfirm, OpReconfirm:
		s += "+" + o.Term + askState()
		if pre != nil {
			if a := pre.Apps[o.App]; a != nil {
				s += "+app:" + a.State
			}
		}
	case OpDecom:
		if pre != nil {
			if n := pre.Nodes[o.Node]; n != nil {
				for _, al := range n.Allocs {
					if al.Placeholder && al.Released && al.ReleaseKey != "" {
						s += "+has-ph-in-swap"
						break
					}
				}
				for _, al := range n.Allocs {
					if !al.Placeholder && !al.Foreign && al.ReleaseKey != "" {
						s += "+has-real-in-swap"
						break
					}
				}
			}
		}
	case OpRmApp:
		if pre != nil {
			if a := pre.Apps[o.App]; a != nil {
				s += "+" + a.State
				if len(a.PH) > 0 {
					s += "+gang"
				}
			}
		}
	case OpFirePH, OpFireState:
		if pre != nil {
			if a := pre.Apps[o.App]; a != nil {
				s += "+" + a.State
				for _, al := range a.Allocs {
					if al.Placeholder && al.ReleaseKey != "" {
						s += "+swap-in-flight"
						break
					}
				}
			}
		}
	}
	return s
}

// FinalCheck evaluates the quiescent-state oracles (ledger, conservation, usage, reservations) on one snapshot.
// Used by the concurrent engine on the final state of a run.
func (e *Engine) FinalCheck(w *world.World) {
	st := &Step{N: 0, Op: &Op{Kind: "final"}, Pre: w, Post: w}
	e.lastStep = nil
	e.checkC01(st)
	e.checkC03(st)
	e.checkUsage(w, "C05")
	e.checkC09(st)
	e.checkC11(st)
}
