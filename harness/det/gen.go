package det

import (
	"fmt"
	"sort"
	"strconv"
	"strings"

	siCommon "github.com/apache/yunikorn-scheduler-interface/lib/go/common"

	"verifharness/res"
)

// Profile is the property specific part of the generator: operation weights and configuration options.
type Profile struct {
	Name            string
	Cfg             CfgOpts
	W               map[string]int
	Gang            int // permille of applications that are gang applications
	Aged            int // permille of asks back-dated past the reservation delay
	ReqNode         int // permille of asks with a required node
	PredDeny        int // permille of (key,node) pairs the predicate denies
	Steps           [2]int
	MaxNodes        int
	MaxApps         int
	NodeCap         [2]int
	AskSize         [2]int
	Reloads         bool
	Closing         bool
	PreemptScenario int // permille of cases that start with the directed preemption world
	Scenario        int // permille of cases that start with the directed interrupted-swap prefix
	SecondPreempt   int // permille of cases that use the guarantee template and the second-preemption scenario
	CrossSwap       int // permille of cases that start with the directed cross-node swap prefix
	SwapTouch       int // permille: how often a release/update may target the real half of an in-flight swap
	Restart         int // permille: how often an ask may be sent to a Completing application (restart)
}

type tgInfo struct {
	Name     string
	Count    int
	Res      res.R
	PHSent   int
	RealSent int
}

type gApp struct {
	ID, Queue, User string
	Gang            bool
	Style           string
	TGs             []*tgInfo
}

type Gen struct {
	R           *Rng
	M           *CfgMeta
	E           *Engine
	P           *Profile
	nodeN       int
	appN        int
	keyN        int
	apps        map[string]*gApp
	dynN        int
	forN        int
	cfgSeed     uint64
	pendingMeta *CfgMeta
	prioBase    int64 // C07: all priorities of the case are shifted to one end of the int32 range
}

func NewGen(r *Rng, m *CfgMeta, e *Engine, p *Profile) *Gen {
	g := &Gen{R: r, M: m, E: e, P: p, apps: map[string]*gApp{}}
	if p.Cfg.Priorities {
		// three in ten cases live at the bottom of the int32 priority range, a tenth at the top: ranks computed from
		// priority and queue offsets then leave the int32 range and must neither wrap nor be clamped
		switch x := r.Intn(10); {
		case x < 3:
			g.prioBase = -2147483648
		case x == 3:
			g.prioBase = 2147483647 - 4
		}
	}
	return g
}

func (g *Gen) shiftPrio(p int32) int32 {
	if g.prioBase == 0 || p < 0 || p > 4 {
		return p
	}
	return int32(g.prioBase + int64(p))
}

func sortedKeys[T any](m map[string]T) []string {
	out := make([]string, 0, len(m))
	for k := range m {
		out = append(out, k)
	}
	sort.Strings(out)
	return out
}

func (g *Gen) liveNodes() []string {
	var out []string
	for _, id := range sortedKeys(g.E.V.Nodes) {
		if g.E.V.Nodes[id].Status == "accepted" {
			out = append(out, id)
		}
	}
	return out
}

func (g *Gen) liveApps() []string {
	var out []string
	for _, id := range sortedKeys(g.E.V.Apps) {
		a := g.E.V.Apps[id]
		if a.Status == "accepted" && !a.Terminated {
			out = append(out, id)
		}
	}
	return out
}

func (g *Gen) keysIn(phases ...int) []string {
	var out []string
	for _, k := range sortedKeys(g.E.V.Keys) {
		vk := g.E.V.Keys[k]
		if vk.Foreign {
			continue
		}
		for _, p := range phases {
			if vk.Phase == p {
				out = append(out, k)
			}
		}
	}
	return out
}

// inSwap reports whether the key is the real half of an in-flight swap in the core. Used for steering only
// (never for judging): two known defects live there and would otherwise end most gang histories early.
func (g *Gen) inSwap(key string) bool {
	vk := g.E.V.Keys[key]
	if vk == nil || g.E.Cur == nil {
		return false
	}
	if a := g.E.Cur.Apps[vk.App]; a != nil {
		if as := a.Asks[key]; as != nil && as.Allocated && as.ReleaseKey != "" {
			return true
		}
	}
	return false
}

func (g *Gen) foreignKeys() []string {
	var out []string
	for _, k := range sortedKeys(g.E.V.Keys) {
		vk := g.E.V.Keys[k]
		if vk.Foreign && vk.Phase == PhBound {
			if n := g.E.V.Nodes[vk.Node]; n != nil && n.Status == "accepted" {
				out = append(out, k)
			}
		}
	}
	return out
}

func (g *Gen) askRes() res.R {
	out := res.R{}
	lo, hi := g.P.AskSize[0], g.P.AskSize[1]
	switch g.R.Intn(6) {
	case 0:
		out["memory"] = int64(g.R.Range(lo, hi))
	case 1:
		out["vcore"] = int64(g.R.Range(lo, hi))
	case 2:
		out["memory"] = int64(g.R.Range(lo, hi))
		out["vcore"] = int64(g.R.Range(lo, hi))
		if g.R.Chance(200) {
			out["gpu"] = 1
		}
	default:
		out["memory"] = int64(g.R.Range(lo, hi))
		out["vcore"] = int64(g.R.Range(lo, hi))
	}
	return out
}

func (g *Gen) nodeCap() res.R {
	lo, hi := g.P.NodeCap[0], g.P.NodeCap[1]
	out := res.R{"memory": int64(g.R.Range(lo, hi)), "vcore": int64(g.R.Range(lo, hi))}
	if g.R.Chance(300) {
		out["gpu"] = int64(g.R.Range(1, 2))
	}
	if g.R.Chance(80) {
		delete(out, "vcore")
	}
	return out
}

func (g *Gen) newKey(app string) string {
	g.keyN++
	return fmt.Sprintf("%s-k%d", app, g.keyN)
}

// Next produces the next operation; nil means "nothing sensible to do for this kind, try again".
func (g *Gen) Next() *Op {
	kinds := sortedKeys(g.P.W)
	weights := make([]int, len(kinds))
	for i, k := range kinds {
		weights[i] = g.P.W[k]
	}
	for try := 0; try < 40; try++ {
		k := kinds[g.R.Weighted(weights)]
		if op := g.make(k); op != nil {
			return op
		}
	}
	return &Op{Kind: OpSched, N: 1}
}

func (g *Gen) make(kind string) *Op {
	r := g.R
	switch kind {
	case OpAddNode, OpAddNodeDr:
		if len(g.liveNodes()) >= g.P.MaxNodes {
			return nil
		}
		g.nodeN++
		return &Op{Kind: kind, Node: fmt.Sprintf("n%d", g.nodeN), Res: g.nodeCap()}
	case OpUpdNode:
		n := r.Pick(g.liveNodes())
		if n == "" {
			return nil
		}
		return &Op{Kind: kind, Node: n, Res: g.nodeCap()}
	case OpDrain, OpUndrain, OpDecom:
		n := r.Pick(g.liveNodes())
		if n == "" {
			return nil
		}
		if kind == OpDecom && len(g.liveNodes()) < 2 && r.Chance(700) {
			return nil
		}
		return &Op{Kind: kind, Node: n}
	case OpAddApp:
		if len(g.liveApps()) >= g.P.MaxApps {
			return nil
		}
		return g.makeApp()
	case OpRmApp:
		a := r.Pick(g.liveApps())
		if a == "" {
			return nil
		}
		return &Op{Kind: kind, App: a}
	case OpAsk:
		return g.makeAsk()
	case OpUpdAsk:
		k := r.Pick(g.keysIn(PhPending, PhBound))
		if k == "" {
			return nil
		}
		vk := g.E.V.Keys[k]
		if vk.PH || (g.inSwap(k) && !r.Chance(g.P.SwapTouch)) {
			return nil
		}
		node := vk.Node
		if vk.Phase == PhBound && !vk.RMBound && r.Chance(400) {
			// the scheduler made the allocation and the shim has not bound the pod yet: its updates still come without
			// a node id, exactly as for a pending ask
			node = ""
		}
		return &Op{Kind: kind, App: vk.App, Key: k, Res: g.askRes(), Node: node, Prio: vk.Prio, ReqNode: vk.ReqNode, TaskGroup: vk.TG}
	case OpBound:
		a := r.Pick(g.liveApps())
		n := r.Pick(g.liveNodes())
		if a == "" || n == "" {
			return nil
		}
		if ga := g.apps[a]; ga != nil && ga.Gang {
			return nil
		}
		bop := &Op{Kind: kind, App: a, Key: g.newKey(a), Node: n, Res: g.askRes(), Prio: int32(r.Intn(3))}
		if g.P.Cfg.Priorities && r.Chance(100) {
			bop.Prio = extremePrio(r)
		}
		bop.Prio = g.shiftPrio(bop.Prio)
		return bop
	case OpBindAsk:
		k := r.Pick(g.keysIn(PhPending))
		n := r.Pick(g.liveNodes())
		if k == "" || n == "" {
			return nil
		}
		vk := g.E.V.Keys[k]
		if vk.PH || vk.TG != "" {
			return nil
		}
		return &Op{Kind: kind, App: vk.App, Key: k, Node: n, Res: vk.Res.Clone(), Prio: vk.Prio, ReqNode: vk.ReqNode}
	case OpEcho:
		k := r.Pick(g.keysIn(PhBound))
		if k == "" {
			return nil
		}
		vk := g.E.V.Keys[k]
		if vk.EchoPending {
			return nil
		}
		return &Op{Kind: kind, App: vk.App, Key: k, Node: vk.Node, Res: vk.Res.Clone(), Prio: vk.Prio, Placeholder: vk.PH, TaskGroup: vk.TG, ReqNode: vk.ReqNode}
	case OpRelease:
		if r.Chance(80) {
			a := r.Pick(g.liveApps())
			if a == "" {
				return nil
			}
			return &Op{Kind: kind, App: a, Key: ""}
		}
		var k string
		if r.Chance(700) {
			k = r.Pick(g.keysIn(PhBound, PhReleasing))
		} else {
			k = r.Pick(g.keysIn(PhPending))
		}
		if k == "" || (g.inSwap(k) && !r.Chance(g.P.SwapTouch)) {
			return nil
		}
		return &Op{Kind: kind, App: g.E.V.Keys[k].App, Key: k}
	case OpForeign:
		n := r.Pick(g.liveNodes())
		if n == "" || len(g.foreignKeys()) >= 3 {
			return nil
		}
		g.forN++
		ft := ""
		if r.Chance(300) {
			ft = siCommon.AllocTypeStatic
		}
		return &Op{Kind: kind, Key: fmt.Sprintf("foreign-%d", g.forN), Node: n, Res: g.askRes(), ForeignType: ft}
	case OpForeignUpd:
		k := r.Pick(g.foreignKeys())
		if k == "" {
			return nil
		}
		return &Op{Kind: kind, Key: k, Node: g.E.V.Keys[k].Node, Res: g.askRes()}
	case OpForeignRm:
		k := r.Pick(g.foreignKeys())
		if k == "" {
			return nil
		}
		return &Op{Kind: kind, Key: k}
	case OpConfirm, OpDupConfirm, OpDropConfirm:
		if len(g.E.C.S.Confirms()) == 0 {
			return nil
		}
		return &Op{Kind: kind, Idx: r.Intn(1000)}
	case OpReconfirm:
		if len(g.E.V.Delivered) == 0 {
			return nil
		}
		c := g.E.V.Delivered[r.Intn(len(g.E.V.Delivered))]
		return &Op{Kind: kind, App: c.App, Key: c.Key, Term: c.Term.String()}
	case OpSched:
		return &Op{Kind: kind, N: r.Range(1, 6)}
	case OpFirePH, OpFireState:
		a := r.Pick(g.liveApps())
		if a == "" {
			return nil
		}
		return &Op{Kind: kind, App: a}
	case OpReload:
		if !g.P.Reloads {
			return nil
		}
		// a queue that holds applications keeps its type (leaf / parent): the core accepts such a change but the
		// applications of a leaf that becomes a parent can no longer be scheduled or accounted for by its children
		for try := 0; try < 6; try++ {
			g.cfgSeed++
			m := GenConfig(NewRng(Mix(r.U64(), g.cfgSeed)), g.P.Cfg)
			if g.typeChangeWithApps(m) {
				continue
			}
			g.pendingMeta = m
			return &Op{Kind: kind, Config: m.YAML}
		}
		return nil
	case OpQuotaPre, OpCleanup:
		return &Op{Kind: kind}
	}
	return nil
}

func (g *Gen) makeApp() *Op {
	r := g.R
	g.appN++
	id := fmt.Sprintf("app%d", g.appN)
	op := &Op{Kind: OpAddApp, App: id, User: r.Pick(g.M.Users)}
	switch r.Intn(4) {
	case 0:
	case 1:
		op.Groups = []string{r.Pick(g.M.Groups)}
	case 2:
		op.Groups = append([]string{}, g.M.Groups...)
	default:
		op.Groups = []string{r.Pick(g.M.Groups), "gx"}
	}
	ga := &gApp{ID: id, User: op.User}
	gang := r.Chance(g.P.Gang) && len(g.M.FifoLeaves) > 0
	switch {
	case gang:
		op.Queue = r.Pick(g.M.FifoLeaves)
	case len(g.M.DynParents) > 0 && r.Chance(250):
		g.dynN++
		op.Queue = fmt.Sprintf("%s.q%d", r.Pick(g.M.DynParents), g.dynN%3)
		if r.Chance(400) {
			op.Tags = map[string]string{}
			if r.Chance(600) {
				op.Tags[siCommon.AppTagNamespaceResourceQuota] = fmt.Sprintf("{\"resources\":{\"memory\":{\"value\":%d},\"vcore\":{\"value\":%d}}}", r.Range(2, 8), r.Range(2, 8))
			}
			if r.Chance(300) {
				op.Tags[siCommon.AppTagNamespaceResourceMaxApps] = strconv.Itoa(r.Range(1, 2))
			}
			if r.Chance(300) {
				op.Tags[siCommon.AppTagNamespaceResourceGuaranteed] = fmt.Sprintf("{\"resources\":{\"memory\":{\"value\":%d}}}", r.Range(1, 2))
			}
		}
	default:
		op.Queue = r.Pick(g.M.Leaves)
	}
	ga.Queue = op.Queue
	if gang {
		ga.Gang = true
		ga.Style = []string{"Soft", "Hard", ""}[r.Intn(3)]
		op.GangStyle = ga.Style
		ntg := r.Range(1, 2)
		total := res.R{}
		for i := 0; i < ntg; i++ {
			tg := &tgInfo{Name: fmt.Sprintf("tg%d", i+1), Count: r.Range(1, 3), Res: g.askRes()}
			delete(tg.Res, "gpu")
			ga.TGs = append(ga.TGs, tg)
			for j := 0; j < tg.Count; j++ {
				total.AddTo(tg.Res)
			}
		}
		op.PHAsk = total
	}
	g.apps[id] = ga
	return op
}

func (g *Gen) makeAsk() *Op {
	r := g.R
	a := r.Pick(g.liveApps())
	if a == "" {
		return nil
	}
	if g.E.Cur != nil {
		if ca := g.E.Cur.Apps[a]; ca != nil && ca.State == "Completing" && !r.Chance(g.P.Restart) {
			return nil
		}
	}
	// a shim does not submit new asks for an application it was told is failing
	if va := g.E.V.Apps[a]; va != nil && len(va.States) > 0 {
		if last := va.States[len(va.States)-1]; last == "Failing" || last == "Failed" {
			return nil
		}
	}
	ga := g.apps[a]
	op := &Op{Kind: OpAsk, App: a, Key: g.newKey(a)}
	if r.Chance(g.P.Aged) {
		op.AgeSec = int64(r.Range(5, 100))
	}
	if r.Chance(400) {
		op.Prio = int32(r.Range(0, 4))
	}
	if g.P.Cfg.Priorities && r.Chance(100) {
		op.Prio = extremePrio(r)
	}
	op.Prio = g.shiftPrio(op.Prio)
	if r.Chance(500) {
		op.PreemptOther = true
	}
	if r.Chance(700) {
		op.PreemptSelf = true
	}
	if ga != nil && ga.Gang {
		// placeholders first, then real asks
		for _, tg := range ga.TGs {
			if tg.PHSent < tg.Count {
				tg.PHSent++
				op.Placeholder, op.TaskGroup, op.Res = true, tg.Name, tg.Res.Clone()
				return op
			}
		}
		tg := ga.TGs[r.Intn(len(ga.TGs))]
		if tg.RealSent >= tg.Count+1 {
			return nil
		}
		tg.RealSent++
		op.TaskGroup = tg.Name
		op.Res = tg.Res.Clone()
		keys := sortedKeys(op.Res)
		switch r.Intn(12) {
		case 0: // smaller in one type
			k := keys[r.Intn(len(keys))]
			if op.Res[k] > 1 {
				op.Res[k]--
			}
		case 1: // larger in one type
			op.Res[keys[r.Intn(len(keys))]]++
		case 2: // mixed: larger in one type, smaller in another
			if len(keys) >= 2 {
				i := r.Intn(len(keys))
				j := (i + 1 + r.Intn(len(keys)-1)) % len(keys)
				op.Res[keys[i]]++
				if op.Res[keys[j]] > 1 {
					op.Res[keys[j]]--
				}
			} else {
				op.Res[keys[0]]++
			}
		case 3: // a type the placeholder does not have
			for _, t := range []string{"memory", "vcore", "gpu"} {
				if _, ok := op.Res[t]; !ok {
					op.Res[t] = int64(r.Range(1, 3))
					break
				}
			}
		case 4: // a type less than the placeholder
			if len(keys) >= 2 {
				delete(op.Res, keys[r.Intn(len(keys))])
			}
		}
		return op
	}
	op.Res = g.askRes()
	if r.Chance(g.P.ReqNode) {
		if n := r.Pick(g.liveNodes()); n != "" {
			op.ReqNode = n
		}
	}
	return op
}

// typeChangeWithApps: the new configuration turns a leaf with applications into a parent, or a parent with
// applications below it into a leaf.
func (g *Gen) typeChangeWithApps(m *CfgMeta) bool {
	if g.E.Cur == nil {
		return false
	}
	cq := cfgQueues(m)
	appsBelow := map[string]int{}
	for _, a := range g.E.Cur.Apps {
		for p := a.Queue; p != ""; {
			appsBelow[p]++
			i := strings.LastIndex(p, ".")
			if i < 0 {
				break
			}
			p = p[:i]
		}
	}
	for path, q := range g.E.Cur.Queues {
		c := cq[path]
		if c == nil || appsBelow[path] == 0 {
			continue
		}
		newLeaf := c.Leaf
		if q.Leaf != newLeaf {
			return true
		}
	}
	// a new leaf below an existing leaf with applications also makes that leaf a parent
	for path := range cq {
		for p := path; strings.Contains(p, "."); {
			p = p[:strings.LastIndex(p, ".")]
			if q := g.E.Cur.Queues[p]; q != nil && q.Leaf && appsBelow[p] > 0 {
				return true
			}
		}
	}
	return false
}

// extremePrio returns a priority at or near the ends of the int32 range: the priority calculus of preemption (offsets
// added and subtracted along queue paths) must not wrap or clamp there.
func extremePrio(r *Rng) int32 {
	return []int32{-2147483648, -2147483647, -2147483645, -2000000000, 2147483647, 2147483646, 2000000000}[r.Intn(7)]
}
