package det

import (
	"fmt"

	"verifharness/res"
	"verifharness/shim"
)

// Phases of an allocation key from the shim's point of view.
const (
	PhNone      = iota
	PhPending   // ask submitted, not bound
	PhBound     // bound on a node (announced by the core, or reported as bound by the shim)
	PhReleasing // core announced a release the shim has not confirmed yet
	PhStopping  // shim asked for the removal (release, app removal, node removal), effect pending until the barrier
	PhGone
	PhRejected
)

var phaseNames = []string{"none", "pending", "bound", "releasing", "stopping", "gone", "rejected"}

type VKey struct {
	App, Key, Node string
	Phase          int
	Res            res.R
	PH             bool
	TG             string
	ReqNode        string
	Prio           int32
	EchoPending    bool
	Foreign        bool
	RelTerm        string // termination type of the announced release
	EverBound      bool
	RMBound        bool // the shim itself reported the allocation as bound (recovery path / bind of a pending ask)
	ShimReleased   bool // the shim itself asked for the release of this key
}

type VApp struct {
	ID, Queue, User string
	Groups          []string
	Status          string // submitted | accepted | rejected | removed
	Answers         int
	States          []string
	Gang            bool
	GangStyle       string
	TaskGroups      []string
	PHAsk           res.R
	Forced          bool
	Terminated      bool // reported Completed / Failed / Expired
}

type VNode struct {
	ID       string
	Status   string // submitted | accepted | rejected | removed
	Answers  int
	Cap      res.R
	Draining bool
}

// View is what a real shim would know, maintained purely from the SI traffic.
type View struct {
	Apps      map[string]*VApp
	Nodes     map[string]*VNode
	Keys      map[string]*VKey
	Delivered []shim.Confirm // confirmations already sent (for duplicates)
}

func NewView() *View {
	return &View{Apps: map[string]*VApp{}, Nodes: map[string]*VNode{}, Keys: map[string]*VKey{}}
}

// ProtoViolation is a violation of the allocation protocol (C04) detected from the SI traffic only.
type ProtoViolation struct {
	Rule string
	Text string
	Ev   *shim.Ev
}

func (v *View) key(k string) *VKey {
	if x, ok := v.Keys[k]; ok {
		return x
	}
	x := &VKey{Key: k}
	v.Keys[k] = x
	return x
}

// Apply runs the protocol automaton over the events of one step (totally ordered) and returns the violations.
// settle=true means the step ended with a barrier: everything the shim asked for has taken effect.
func (v *View) Apply(evs []*shim.Ev, settle bool) []ProtoViolation {
	var out []ProtoViolation
	bad := func(rule string, e *shim.Ev, f string, a ...interface{}) {
		out = append(out, ProtoViolation{Rule: rule, Text: fmt.Sprintf(f, a...), Ev: e})
	}
	dupSubmission := map[string]bool{} // app ids re-submitted while known (expect one rejection, the known one lives on)
	dupNode := map[string]bool{}
	for _, e := range evs {
		switch e.Dir + ":" + e.Kind {
		case "send:addApp":
			if a, ok := v.Apps[e.App]; ok && ((a.Status == "accepted" && !a.Terminated) || a.Status == "submitted") {
				dupSubmission[e.App] = true
			} else {
				v.Apps[e.App] = &VApp{ID: e.App, Queue: e.Reason, User: e.State, Status: "submitted"}
			}
		case "send:rmApp":
			if a, ok := v.Apps[e.App]; ok && a.Status != "rejected" {
				a.Status = "removed"
				for _, k := range v.Keys {
					if k.App == e.App && !k.Foreign && k.Phase != PhGone && k.Phase != PhNone && k.Phase != PhRejected {
						k.Phase = PhStopping
					}
				}
			}
		case "send:node:CREATE", "send:node:CREATE_DRAIN":
			if n, ok := v.Nodes[e.Node]; ok && (n.Status == "accepted" || n.Status == "submitted") {
				dupNode[e.Node] = true
			} else {
				v.Nodes[e.Node] = &VNode{ID: e.Node, Status: "submitted", Cap: e.Res, Draining: e.Kind == "node:CREATE_DRAIN"}
			}
		case "send:node:UPDATE":
			if n, ok := v.Nodes[e.Node]; ok && n.Status == "accepted" {
				n.Cap = e.Res
			}
		case "send:node:DRAIN_NODE":
			if n, ok := v.Nodes[e.Node]; ok {
				n.Draining = true
			}
		case "send:node:DRAIN_TO_SCHEDULABLE":
			if n, ok := v.Nodes[e.Node]; ok {
				n.Draining = false
			}
		case "send:node:DECOMISSION":
			if n, ok := v.Nodes[e.Node]; ok && n.Status == "accepted" {
				n.Status = "removed"
				for _, k := range v.Keys {
					if k.Node == e.Node && (k.Phase == PhBound || k.Phase == PhReleasing) {
						k.Phase = PhStopping
					}
				}
			}
		case "send:ask":
			k := v.key(e.Key)
			if k.Phase == PhNone {
				k.App, k.Res, k.PH, k.Phase, k.TG, k.Prio, k.ReqNode = e.App, e.Res, e.Flag, PhPending, e.TG, e.Prio, e.ReqNode
			} else if k.Phase == PhPending || k.Phase == PhBound {
				k.Res = e.Res // in place update
			}
		case "send:bound":
			k := v.key(e.Key)
			if k.Phase == PhNone {
				k.App, k.Res, k.PH, k.Node, k.Phase, k.EchoPending, k.EverBound, k.TG, k.Prio, k.ReqNode = e.App, e.Res, e.Flag, e.Node, PhBound, true, true, e.TG, e.Prio, e.ReqNode
				k.RMBound = true
			} else if k.Phase == PhPending {
				k.Node, k.Phase, k.EchoPending, k.EverBound = e.Node, PhBound, true, true
				k.RMBound = true
			} else if k.Phase == PhBound {
				k.Res = e.Res
			}
		case "send:foreign":
			k := v.key(e.Key)
			k.Foreign, k.Node, k.Res, k.Phase = true, e.Node, e.Res, PhBound
		case "send:release":
			if e.App == "" {
				if k, ok := v.Keys[e.Key]; ok && k.Foreign {
					k.Phase = PhGone
				}
				break
			}
			if e.Key == "" {
				// a release without allocation key removes every allocation and every ask of the application
				for _, k := range v.Keys {
					if k.App == e.App && !k.Foreign && (k.Phase == PhBound || k.Phase == PhReleasing || k.Phase == PhPending) {
						k.Phase = PhStopping
						k.ShimReleased = true
					}
				}
				break
			}
			if k, ok := v.Keys[e.Key]; ok && k.App == e.App && (k.Phase == PhPending || k.Phase == PhBound || k.Phase == PhReleasing) {
				k.Phase = PhStopping
				k.ShimReleased = true
			}
		case "send:confirm":
			if k, ok := v.Keys[e.Key]; ok && k.App == e.App && k.Phase == PhReleasing {
				// a TIMEOUT confirmation removes the allocation but keeps the ask; from the shim's side the pod is gone
				k.Phase = PhStopping
			}
		case "recv:acceptedApp", "recv:rejectedApp":
			if dupSubmission[e.App] {
				if e.Kind == "acceptedApp" {
					bad("dup-app-accepted", e, "application %s accepted although it was already known", e.App)
				}
				delete(dupSubmission, e.App)
				break
			}
			a, ok := v.Apps[e.App]
			if !ok {
				bad("answer-unknown-app", e, "answer for an application %s never submitted", e.App)
				break
			}
			a.Answers++
			if a.Answers > 1 {
				bad("app-answered-twice", e, "application %s got %d accepted/rejected answers", e.App, a.Answers)
			}
			if a.Status == "submitted" || a.Status == "removed" {
				if e.Kind == "acceptedApp" {
					if a.Status == "submitted" {
						a.Status = "accepted"
					}
				} else {
					a.Status = "rejected"
				}
			}
		case "recv:updatedApp":
			a, ok := v.Apps[e.App]
			if !ok {
				bad("update-unknown-app", e, "state update for an application %s never submitted", e.App)
				break
			}
			if a.Status == "rejected" && e.State != "Expired" {
				bad("trace-of-rejected-app", e, "state update %s for rejected application %s", e.State, e.App)
			}
			a.States = append(a.States, e.State)
			if e.State == "Completed" || e.State == "Failed" || e.State == "Expired" {
				a.Terminated = true
			}
		case "recv:acceptedNode", "recv:rejectedNode":
			if dupNode[e.Node] {
				if e.Kind == "acceptedNode" {
					bad("dup-node-accepted", e, "node %s accepted although it was already registered", e.Node)
				}
				delete(dupNode, e.Node)
				break
			}
			n, ok := v.Nodes[e.Node]
			if !ok {
				bad("answer-unknown-node", e, "answer for a node %s never submitted", e.Node)
				break
			}
			n.Answers++
			if n.Answers > 1 {
				bad("node-answered-twice", e, "node %s got %d answers", e.Node, n.Answers)
			}
			if e.Kind == "acceptedNode" {
				if n.Status == "submitted" {
					n.Status = "accepted"
				}
			} else {
				n.Status = "rejected"
			}
		case "recv:rejectedAlloc":
			if k, ok := v.Keys[e.Key]; ok && (k.Phase == PhPending || (k.Phase == PhBound && k.EchoPending)) {
				k.Phase = PhRejected
			}
		case "recv:new":
			k, ok := v.Keys[e.Key]
			if !ok || k.Phase == PhNone {
				bad("new-unknown-key", e, "new allocation %s for an ask the shim never submitted", e.Key)
				break
			}
			a := v.Apps[k.App]
			n := v.Nodes[e.Node]
			switch {
			case k.Phase == PhRejected:
				bad("new-for-rejected-ask", e, "new allocation for rejected ask %s", e.Key)
			case k.App != e.App:
				bad("new-wrong-app", e, "new allocation %s names application %s, ask was submitted for %s", e.Key, e.App, k.App)
			case k.Phase == PhBound && k.EchoPending && k.Node == e.Node:
				k.EchoPending = false
			case k.Phase == PhBound:
				bad("key-bound-twice", e, "allocation %s announced as new on %s while already bound on %s", e.Key, e.Node, k.Node)
			case (k.Phase == PhGone || k.Phase == PhStopping) && k.ShimReleased:
				bad("new-after-shim-release", e, "new allocation %s on %s after the shim released that ask", e.Key, e.Node)
			case k.Phase == PhGone || k.Phase == PhStopping || k.Phase == PhReleasing:
				bad("new-not-outstanding", e, "new allocation %s while the ask is %s from the shim's point of view", e.Key, phaseNames[k.Phase])
			case a == nil || a.Status != "accepted":
				st := "unknown"
				if a != nil {
					st = a.Status
				}
				bad("new-app-not-accepted", e, "new allocation %s for application %s which is %s", e.Key, k.App, st)
			case n == nil || n.Status != "accepted":
				st := "unknown"
				if n != nil {
					st = n.Status
				}
				bad("new-node-not-registered", e, "new allocation %s on node %s which is %s", e.Key, e.Node, st)
			default:
				k.Phase, k.Node, k.EverBound = PhBound, e.Node, true
			}
		case "recv:released":
			k, ok := v.Keys[e.Key]
			if !ok || k.Phase == PhNone {
				bad("release-unknown-key", e, "release (%s) of key %s the shim never submitted", e.Term, e.Key)
				break
			}
			if a := v.Apps[k.App]; a != nil && a.Status == "rejected" {
				bad("trace-of-rejected-app", e, "release for rejected application %s", k.App)
			}
			switch k.Phase {
			case PhGone, PhRejected:
				bad("release-after-gone", e, "release (%s) of key %s which is %s from the shim's point of view", e.Term, e.Key, phaseNames[k.Phase])
			case PhStopping:
				if e.Term == "STOPPED_BY_RM" {
					k.Phase = PhGone
				}
				// a core initiated release racing with the shim's own request is legal: still outstanding until settled
			case PhPending, PhBound, PhReleasing:
				if e.Term == "STOPPED_BY_RM" {
					bad("unsolicited-stop", e, "STOPPED_BY_RM release of %s which the shim did not ask to remove", e.Key)
					k.Phase = PhGone
				} else {
					k.Phase = PhReleasing
					k.RelTerm = e.Term
				}
			}
		}
	}
	if settle {
		for id := range dupSubmission {
			bad("app-not-answered", nil, "re-submitted application %s got no answer by the barrier", id)
		}
		for id := range dupNode {
			bad("node-not-answered", nil, "re-submitted node %s got no answer by the barrier", id)
		}
		for _, a := range v.Apps {
			if a.Answers == 0 && (a.Status == "submitted" || a.Status == "removed") {
				bad("app-not-answered", nil, "application %s got no accepted/rejected answer by the barrier", a.ID)
				a.Answers = -1000 // report once
			}
		}
		for _, n := range v.Nodes {
			if n.Answers == 0 && (n.Status == "submitted" || n.Status == "removed") {
				bad("node-not-answered", nil, "node %s got no accepted/rejected answer by the barrier", n.ID)
				n.Answers = -1000
			}
		}
		for _, k := range v.Keys {
			if k.Phase == PhStopping {
				k.Phase = PhGone
			}
		}
	}
	return out
}
