package det

import (
	"fmt"
	"sort"
	"strconv"
	"strings"

	"github.com/apache/yunikorn-core/pkg/common/configs"

	"verifharness/res"
	"verifharness/world"
)

// The C05 configuration monitor ("the limits in force are exactly those of the latest configuration"), the C16 reload
// oracle and the reload bookkeeping live here.

type cfgLimit struct {
	Res  res.R
	Apps uint64
}

type cfgQueue struct {
	Path   string
	Conf   *configs.QueueConfig
	Max    res.R
	Guar   res.R
	Users  map[string]cfgLimit
	Groups map[string]cfgLimit
	Leaf   bool
}

// parseCfgRes interprets the quantities the generator writes (plain integers, "m" suffix for vcore).
func parseCfgRes(m map[string]string) res.R {
	if m == nil {
		return nil
	}
	out := res.R{}
	for k, v := range m {
		if k == "vcore" {
			if strings.HasSuffix(v, "m") {
				n, _ := strconv.ParseInt(strings.TrimSuffix(v, "m"), 10, 64)
				out[k] = n
			} else {
				n, _ := strconv.ParseInt(v, 10, 64)
				out[k] = n * 1000
			}
			continue
		}
		n, _ := strconv.ParseInt(v, 10, 64)
		out[k] = n
	}
	return out
}

func walkCfg(q *configs.QueueConfig, parent string, out map[string]*cfgQueue) {
	path := strings.ToLower(q.Name)
	if parent != "" {
		path = parent + "." + path
	}
	cq := &cfgQueue{Path: path, Conf: q, Max: parseCfgRes(q.Resources.Max), Guar: parseCfgRes(q.Resources.Guaranteed), Users: map[string]cfgLimit{}, Groups: map[string]cfgLimit{}, Leaf: len(q.Queues) == 0 && !q.Parent}
	for _, l := range q.Limits {
		lim := cfgLimit{Res: parseCfgRes(l.MaxResources), Apps: l.MaxApplications}
		for _, u := range l.Users {
			cq.Users[u] = lim
		}
		for _, g := range l.Groups {
			cq.Groups[g] = lim
		}
	}
	out[path] = cq
	for i := range q.Queues {
		walkCfg(&q.Queues[i], path, out)
	}
}

func cfgQueues(m *CfgMeta) map[string]*cfgQueue {
	out := map[string]*cfgQueue{}
	if m == nil || m.Conf == nil || len(m.Conf.Partitions) == 0 {
		return out
	}
	for i := range m.Conf.Partitions[0].Queues {
		walkCfg(&m.Conf.Partitions[0].Queues[i], "", out)
	}
	return out
}

func sameLimit(qt *world.QT, exp cfgLimit, has bool) bool {
	if !has {
		return len(qt.MaxRes) == 0 && qt.MaxApps == 0
	}
	if qt.MaxApps != exp.Apps {
		return false
	}
	if len(exp.Res) == 0 {
		return len(qt.MaxRes) == 0
	}
	if len(qt.MaxRes) != len(exp.Res) {
		return false
	}
	for k, v := range exp.Res {
		if w, ok := qt.MaxRes[k]; !ok || w != v {
			return false
		}
	}
	return true
}

// checkLimitsConfig: after every (re)load the limit of every existing tracker node equals the latest configuration:
// the named limit of that user at that queue, else the wildcard user limit at that queue, else none; for groups the
// named (or "*") group limit, else none.
func (e *Engine) checkLimitsConfig(m *CfgMeta, when string) {
	if e.Cur == nil {
		return
	}
	cq := cfgQueues(m)
	w := e.Cur
	ctx := "/" + when
	if e.Hist.Reloads > 1 {
		ctx = "/reload-chain"
	}
	for _, name := range sortedKeys(w.Users) {
		tr := w.Users[name]
		paths := sortedKeys(tr.Queues)
		for _, path := range paths {
			qt := tr.Queues[path]
			e.obs("c05.config_limit_checks", 1)
			var exp cfgLimit
			has := false
			kind := "none"
			if q := cq[path]; q != nil {
				if l, ok := q.Users[name]; ok {
					exp, has, kind = l, true, "named"
				} else if l, ok := q.Users["*"]; ok {
					exp, has, kind = l, true, "wildcard"
				}
			}
			if !sameLimit(qt, exp, has) {
				e.violate("C05", "limit-not-from-latest-config", "/user/expected-"+kind+ctx, fmt.Sprintf("user %s in %s has limit %s / %d applications in force, the latest configuration says %s limit %s / %d", name, path, qt.MaxRes, qt.MaxApps, kind, exp.Res, exp.Apps))
			}
		}
	}
	for _, name := range sortedKeys(w.Groups) {
		tr := w.Groups[name]
		for _, path := range sortedKeys(tr.Queues) {
			qt := tr.Queues[path]
			e.obs("c05.config_limit_checks", 1)
			var exp cfgLimit
			has := false
			if q := cq[path]; q != nil {
				if l, ok := q.Groups[name]; ok {
					exp, has = l, true
				}
			}
			if !sameLimit(qt, exp, has) {
				kind := "none"
				if has {
					kind = "named"
				}
				e.violate("C05", "limit-not-from-latest-config", "/group/expected-"+kind+ctx, fmt.Sprintf("group %s in %s has limit %s / %d applications in force, the latest configuration says %s / %d", name, path, qt.MaxRes, qt.MaxApps, exp.Res, exp.Apps))
			}
		}
	}
}

func (e *Engine) afterReload(g *Gen, ok bool) {
	accepted := false
	if e.lastStep != nil {
		for _, ev := range e.lastStep.Evs {
			if ev.Kind == "reloadResult" && ev.Flag {
				accepted = true
			}
		}
	}
	if e.lastStep != nil {
		e.checkC16Reload(e.lastStep, g.pendingMeta, accepted)
	}
	if accepted && g.pendingMeta != nil {
		g.M = g.pendingMeta
		e.checkLimitsConfig(g.M, "reload")
	} else {
		e.Hist.ReloadsRejected++
	}
	g.pendingMeta = nil
}

// fullView: everything observable that a rejected reload must leave unchanged.
func fullView(w *world.World) string {
	var b strings.Builder
	b.WriteString(ledger(w))
	for _, p := range sortedKeys(w.Queues) {
		q := w.Queues[p]
		props := make([]string, 0, len(q.Props))
		for k, v := range q.Props {
			props = append(props, k+"="+v)
		}
		sort.Strings(props)
		fmt.Fprintf(&b, "QC %s max=%s guar=%s maxapps=%d leaf=%v managed=%v props=%v sort=%s prio=%v fence=%v/%v offset=%d\n", p, q.Max, q.Guaranteed, q.MaxApps, q.Leaf, q.Managed, props, q.SortPolicy, q.PrioSort, q.PreemptFence, q.PrioFence, q.PrioOffset)
	}
	for _, u := range sortedKeys(w.Users) {
		t := w.Users[u]
		for _, p := range sortedKeys(t.Queues) {
			fmt.Fprintf(&b, "UL %s %s max=%s apps=%d\n", u, p, t.Queues[p].MaxRes, t.Queues[p].MaxApps)
		}
	}
	for _, u := range sortedKeys(w.Groups) {
		t := w.Groups[u]
		for _, p := range sortedKeys(t.Queues) {
			fmt.Fprintf(&b, "GL %s %s max=%s apps=%d\n", u, p, t.Queues[p].MaxRes, t.Queues[p].MaxApps)
		}
	}
	fmt.Fprintf(&b, "RULES %v SORT %s\n", w.Rules, w.NodeSort)
	return b.String()
}

func sameResKeep(a, b res.R) bool {
	if len(a) != len(b) {
		return false
	}
	for k, v := range a {
		if w, ok := b[k]; !ok || w != v {
			return false
		}
	}
	return true
}

// checkC16Reload judges one reload step.
func (e *Engine) checkC16Reload(st *Step, m *CfgMeta, accepted bool) {
	pre, post := st.Pre, st.Post
	if !accepted {
		e.obs("c16.reloads_rejected", 1)
		a, b := fullView(pre), fullView(post)
		if a != b {
			e.violate("C16", "rejected-reload-changed-state", "", "a rejected reload changed observable state:\n"+diffLines(a, b))
		}
		return
	}
	e.obs("c16.reloads_accepted", 1)
	// running state is preserved
	for id, pa := range pre.Apps {
		a := post.Apps[id]
		if a == nil {
			e.violate("C16", "reload-lost-application", "", fmt.Sprintf("application %s (%s) disappeared in an accepted reload", id, pa.State))
			continue
		}
		if a.State != pa.State || a.Queue != pa.Queue || !res.Equal(a.Allocated, pa.Allocated) || !res.Equal(a.Pending, pa.Pending) || !res.Equal(a.PHAlloc, pa.PHAlloc) ||
			strings.Join(sortedKeys(a.Allocs), ",") != strings.Join(sortedKeys(pa.Allocs), ",") || strings.Join(sortedKeys(a.Asks), ",") != strings.Join(sortedKeys(pa.Asks), ",") || len(a.Resvs) != len(pa.Resvs) {
			e.violate("C16", "reload-changed-application", "", fmt.Sprintf("application %s changed in an accepted reload: state %s->%s queue %s->%s allocated %s->%s pending %s->%s", id, pa.State, a.State, pa.Queue, a.Queue, pa.Allocated, a.Allocated, pa.Pending, a.Pending))
		}
	}
	busy := false
	for path, pq := range pre.Queues {
		q := post.Queues[path]
		if q == nil {
			// the production queue cleaner of the partition manager runs on its own 10 s timer next to the hook: a queue it
			// may remove at any moment (empty with an empty removable subtree, and unmanaged or already draining) can vanish during any step of a case that
			// lasts longer than that on a loaded machine. That is legitimate and indistinguishable here: observed, not judged.
			removable := true
			for p2, q2 := range pre.Queues {
				// the queue itself and everything below it (the cleaner removes children first, then the parent, in one pass)
				if p2 == path || strings.HasPrefix(p2, path+".") {
					if len(q2.Apps) != 0 || !q2.Allocated.IsZero() || !q2.Pending.IsZero() || (q2.Managed && q2.State != "Draining") {
						removable = false
					}
				}
			}
			if removable {
				e.obs("c16.removable_queue_gone_during_reload", 1)
				continue
			}
			e.violate("C16", "reload-removed-queue", "", fmt.Sprintf("queue %s disappeared in the reload itself (queues are only removed by the cleaner once empty)", path))
			continue
		}
		if !res.Equal(q.Allocated, pq.Allocated) || !res.Equal(q.Pending, pq.Pending) {
			e.violate("C16", "reload-changed-queue-totals", "", fmt.Sprintf("queue %s allocated %s->%s pending %s->%s in an accepted reload", path, pq.Allocated, q.Allocated, pq.Pending, q.Pending))
		}
		if !pq.Allocated.IsZero() || !pq.Pending.IsZero() {
			busy = true
		}
	}
	for id, pn := range pre.Nodes {
		n := post.Nodes[id]
		if n == nil || !res.Equal(n.Allocated, pn.Allocated) || len(n.Allocs) != len(pn.Allocs) || len(n.Resvs) != len(pn.Resvs) {
			e.violate("C16", "reload-changed-node", "", fmt.Sprintf("node %s changed in an accepted reload", id))
		}
	}
	if busy {
		e.obs("c16.reloads_with_running_state", 1)
	}
	// the new configuration is applied to every queue it defines
	cq := cfgQueues(m)
	for path, c := range cq {
		q := post.Queues[path]
		if q == nil {
			e.violate("C16", "configured-queue-missing", "", fmt.Sprintf("queue %s is defined by the accepted configuration but does not exist", path))
			continue
		}
		e.obs("c16.queue_settings_checked", 1)
		if path != "root" {
			// a maximum / guaranteed without any positive quantity is documented as "cannot set zero resources": it is not set
			if !anyPositive(c.Max) {
				c.Max = nil
			}
			if !anyPositive(c.Guar) {
				c.Guar = nil
			}
			if !sameResKeep(c.Max, q.Max) && !(len(c.Max) == 0 && len(q.Max) == 0) {
				e.violate("C16", "queue-max-not-applied", "", fmt.Sprintf("queue %s max is %s, the accepted configuration says %s", path, q.Max, c.Max))
			}
			if !res.Equal(c.Guar, q.Guaranteed) {
				e.violate("C16", "queue-guaranteed-not-applied", "", fmt.Sprintf("queue %s guaranteed is %s, the accepted configuration says %s", path, q.Guaranteed, c.Guar))
			}
		}
		if q.MaxApps != c.Conf.MaxApplications {
			who := "/non-root"
			if path == "root" {
				who = "/root"
			}
			e.violate("C16", "queue-maxapps-not-applied", who, fmt.Sprintf("queue %s max applications is %d, the accepted configuration says %d", path, q.MaxApps, c.Conf.MaxApplications))
		}
		if q.State != "Active" {
			e.violate("C16", "configured-queue-not-active", "/"+q.State, fmt.Sprintf("queue %s is defined by the accepted configuration but is %s", path, q.State))
		}
		if !q.Managed {
			if pq := pre.Queues[path]; pq == nil || pq.Managed {
				e.violate("C16", "configured-queue-not-managed", "", fmt.Sprintf("queue %s is defined by the accepted configuration but is not a managed queue", path))
			}
		}
		// own properties override
		for k, v := range c.Conf.Properties {
			if q.Props[k] != v {
				e.violate("C16", "queue-property-not-applied", "/"+k, fmt.Sprintf("queue %s property %s is %q, the accepted configuration says %q", path, k, q.Props[k], v))
			}
		}
	}
	// managed queues missing from the new configuration are draining
	for path, q := range post.Queues {
		if _, ok := cq[path]; ok || !q.Managed {
			continue
		}
		e.obs("c16.queues_dropped_from_config", 1)
		if q.State != "Draining" {
			e.violate("C16", "dropped-queue-not-draining", "/"+q.State, fmt.Sprintf("managed queue %s is not in the accepted configuration but is %s", path, q.State))
		}
	}
}

// checkC16Step: the rules that are not about the reload step itself.
func (e *Engine) checkC16Step(st *Step) {
	pre, post := st.Pre, st.Post
	if st.Op.Kind == OpAddApp {
		if a := post.Apps[st.Op.App]; a != nil && pre.Apps[st.Op.App] == nil {
			if pq := pre.Queues[a.Queue]; pq != nil && pq.State == "Draining" {
				e.violate("C16", "draining-queue-accepted-application", "", fmt.Sprintf("application %s was accepted into queue %s which was draining", st.Op.App, a.Queue))
			}
			if pq := pre.Queues[a.Queue]; pq != nil && pq.State == "Draining" {
				e.obs("c16.apps_to_draining_queue", 1)
			}
		} else if pq := pre.Queues[strings.ToLower(st.Op.Queue)]; pq != nil && pq.State == "Draining" {
			e.obs("c16.apps_to_draining_queue", 1)
		}
	}
	// a queue only disappears when it was empty
	for path, pq := range pre.Queues {
		if _, ok := post.Queues[path]; ok {
			continue
		}
		e.obs("c16.queues_removed", 1)
		if len(pq.Apps) > 0 {
			e.violate("C16", "non-empty-queue-removed", "/"+st.Op.Kind, fmt.Sprintf("queue %s was removed in step %s while it had applications %v", path, st.Op.Kind, pq.Apps))
		}
		for _, c := range pq.Children {
			if _, still := post.Queues[c]; still {
				e.violate("C16", "queue-removed-before-children", "/"+st.Op.Kind, fmt.Sprintf("queue %s was removed while its child %s still exists", path, c))
			}
		}
	}
	// existing applications of a draining queue keep running: a draining leaf with pending asks is still scheduled is
	// covered by the normal scheduling oracles; here: draining queues never turn Active without a reload
	if st.Op.Kind != OpReload {
		for path, q := range post.Queues {
			if pq := pre.Queues[path]; pq != nil && pq.State == "Draining" && q.State == "Active" {
				e.violate("C16", "draining-queue-reactivated-without-reload", "/"+st.Op.Kind, fmt.Sprintf("queue %s went from Draining to Active in step %s", path, st.Op.Kind))
			}
		}
	}
}

func anyPositive(r res.R) bool {
	for _, v := range r {
		if v > 0 {
			return true
		}
	}
	return false
}
