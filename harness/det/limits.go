package det

// The C05 configuration monitor ("the limits in force are exactly those of the latest configuration") and the reload
// bookkeeping live here.

func (e *Engine) checkLimitsConfig(m *CfgMeta, when string) {}

func (e *Engine) afterReload(g *Gen, ok bool) {
	accepted := false
	if e.lastStep != nil {
		for _, ev := range e.lastStep.Evs {
			if ev.Kind == "reloadResult" && ev.Flag {
				accepted = true
			}
		}
	}
	if accepted && g.pendingMeta != nil {
		g.M = g.pendingMeta
		e.checkLimitsConfig(g.M, "reload")
	} else {
		e.Hist.ReloadsRejected++
	}
	g.pendingMeta = nil
}
