package det

import (
	"fmt"
	"strconv"
	"strings"

	"go.yaml.in/yaml/v3"

	"github.com/apache/yunikorn-core/pkg/common/configs"
)

// CfgMeta describes a generated configuration for the operation generator and the oracles.
type CfgMeta struct {
	Conf       *configs.SchedulerConfig
	YAML       string
	Leaves     []string // static leaf queue paths
	DynParents []string // parents under which the provided rule may create queues
	Users      []string
	Groups     []string
	FifoLeaves []string // leaves that support task groups
}

// CfgOpts selects which dimensions the configuration generator exercises.
type CfgOpts struct {
	Limits          int // permille chance per queue of user/group limits
	MaxApps         int // permille chance per queue of maxapplications
	QueueMax        int // permille chance per queue of a max resource
	Guaranteed      int
	Preemption      bool
	Priorities      bool
	TightMax        bool
	Dynamic         bool
	QuotaPreemption bool
	MixedCase       int // permille chance per configured queue of a name with a capital letter (the core stores names lower-cased)
}

// mixCase capitalises configured queue names without touching the generator's random stream: the decisions are derived
// from the configuration text itself. Paths recorded in the meta data stay lower-case, as the core stores them.
func mixCase(conf *configs.SchedulerConfig, yamlText string, permille int) bool {
	h := uint64(1469598103934665603)
	for i := 0; i < len(yamlText); i++ {
		h = (h ^ uint64(yamlText[i])) * 1099511628211
	}
	r := NewRng(Mix(h, 77))
	changed := false
	var walk func(q *configs.QueueConfig, top bool)
	walk = func(q *configs.QueueConfig, top bool) {
		if !top && r.Chance(permille) && len(q.Name) > 0 {
			q.Name = strings.ToUpper(q.Name[:1]) + q.Name[1:]
			changed = true
		}
		for i := range q.Queues {
			walk(&q.Queues[i], false)
		}
	}
	for pi := range conf.Partitions {
		for qi := range conf.Partitions[pi].Queues {
			walk(&conf.Partitions[pi].Queues[qi], true)
		}
	}
	return changed
}

var resTypes = []string{"memory", "vcore", "gpu"}

func sparseRes(r *Rng, lo, hi int, density int) map[string]string {
	out := map[string]string{}
	for _, t := range resTypes[:2] {
		if r.Chance(density) {
			out[t] = strconv.Itoa(r.Range(lo, hi))
		}
	}
	if r.Chance(density / 4) {
		out["gpu"] = strconv.Itoa(r.Range(0, hi/2))
	}
	if len(out) == 0 {
		return nil
	}
	return out
}

func capRes(child, parent map[string]string) map[string]string {
	// make child <= parent on shared types
	for k, v := range child {
		if p, ok := parent[k]; ok {
			cv, _ := strconv.Atoi(v)
			pv, _ := strconv.Atoi(p)
			if cv > pv {
				child[k] = p
			}
		}
	}
	return child
}

func genLimits(r *Rng, o CfgOpts, users, groups []string, qmax map[string]string, parentLimits []configs.Limit) []configs.Limit {
	if !r.Chance(o.Limits) {
		return nil
	}
	var out []configs.Limit
	n := r.Range(1, 2)
	usedU := map[string]bool{}
	usedG := map[string]bool{}
	for i := 0; i < n; i++ {
		l := configs.Limit{Limit: fmt.Sprintf("l%d", i)}
		switch r.Intn(4) {
		case 0:
			u := r.Pick(users)
			if usedU[u] {
				continue
			}
			usedU[u] = true
			l.Users = []string{u}
		case 1:
			if usedU["*"] {
				continue
			}
			usedU["*"] = true
			l.Users = []string{"*"}
		case 2:
			g := r.Pick(groups)
			if usedG[g] {
				continue
			}
			usedG[g] = true
			l.Groups = []string{g}
		default:
			u := r.Pick(users)
			g := r.Pick(groups)
			if usedU[u] || usedG[g] {
				continue
			}
			usedU[u], usedG[g] = true, true
			l.Users = []string{u}
			l.Groups = []string{g}
		}
		if r.Chance(750) {
			l.MaxResources = sparseRes(r, 1, 6, 700)
			if l.MaxResources != nil && qmax != nil {
				l.MaxResources = capRes(l.MaxResources, qmax)
			}
		}
		if l.MaxResources == nil || r.Chance(350) {
			l.MaxApplications = uint64(r.Range(1, 3))
		}
		out = append(out, l)
	}
	// the wildcard entries must come last for users
	var named, wild []configs.Limit
	for _, l := range out {
		if len(l.Users) == 1 && l.Users[0] == "*" {
			wild = append(wild, l)
		} else {
			named = append(named, l)
		}
	}
	return append(named, wild...)
}

// GenConfig produces a configuration accepted by the real validator (retrying with fewer features when not).
func GenConfig(r *Rng, o CfgOpts) *CfgMeta {
	users := []string{"u1", "u2", "u3"}
	groups := []string{"g1", "g2"}
	for attempt := 0; attempt < 12; attempt++ {
		oo := o
		if attempt >= 4 {
			oo.Limits /= 2
			oo.Guaranteed /= 2
		}
		if attempt >= 8 {
			oo.Limits, oo.Guaranteed, oo.MaxApps = 0, 0, 0
		}
		m := genConfigOnce(r, oo, users, groups)
		milliVcore(m.Conf)
		b, err := yaml.Marshal(m.Conf)
		if err != nil {
			continue
		}
		if _, err := configs.LoadSchedulerConfigFromByteArray(b); err != nil {
			continue
		}
		m.YAML = string(b)
		if o.MixedCase > 0 && mixCase(m.Conf, m.YAML, o.MixedCase) {
			if b2, err := yaml.Marshal(m.Conf); err == nil {
				if _, err := configs.LoadSchedulerConfigFromByteArray(b2); err == nil {
					m.YAML = string(b2)
				}
			}
		}
		return m
	}
	// minimal fallback, always valid
	m := &CfgMeta{Users: users, Groups: groups, Leaves: []string{"root.a"}, FifoLeaves: []string{"root.a"}}
	m.Conf = &configs.SchedulerConfig{Partitions: []configs.PartitionConfig{{Name: "default", Queues: []configs.QueueConfig{{Name: "root", SubmitACL: "*", Queues: []configs.QueueConfig{{Name: "a"}}}}}}}
	b, _ := yaml.Marshal(m.Conf)
	m.YAML = string(b)
	return m
}

func queueProps(r *Rng, o CfgOpts, leaf bool) map[string]string {
	p := map[string]string{}
	if leaf && r.Chance(250) {
		p["application.sort.policy"] = "fair"
	}
	if r.Chance(150) {
		p["application.sort.priority"] = []string{"enabled", "disabled"}[r.Intn(2)]
	}
	if o.Priorities {
		if r.Chance(450) {
			p["priority.offset"] = strconv.Itoa(r.Range(-3, 3))
			if r.Chance(150) {
				p["priority.offset"] = []string{"-2147483648", "-2147483647", "-2000000000", "2147483647", "2000000000", "-5", "7"}[r.Intn(7)]
			}
		}
		if r.Chance(300) {
			p["priority.policy"] = []string{"default", "fence", "fence"}[r.Intn(3)]
		}
	}
	if o.Preemption {
		if r.Chance(250) {
			p["preemption.policy"] = []string{"default", "fence", "disabled"}[r.Intn(3)]
		}
		if r.Chance(500) {
			p["preemption.delay"] = []string{"1s", "2s", "3600s"}[r.Intn(3)]
		}
	}
	if o.QuotaPreemption && r.Chance(600) {
		p["quota.preemption.delay"] = []string{"1ms", "1s", "3600s"}[r.Intn(3)]
	}
	if len(p) == 0 {
		return nil
	}
	return p
}

func genConfigOnce(r *Rng, o CfgOpts, users, groups []string) *CfgMeta {
	m := &CfgMeta{Users: users, Groups: groups}
	names := []string{"a", "b", "c", "d"}
	root := configs.QueueConfig{Name: "root", SubmitACL: "*", Parent: true}
	rootLimits := genLimits(r, o, users, groups, nil, nil)
	root.Limits = rootLimits
	if r.Chance(o.MaxApps / 2) {
		root.MaxApplications = uint64(r.Range(2, 4))
	}
	nTop := r.Range(1, 3)
	lo, hi := 3, 12
	if o.TightMax {
		lo, hi = 2, 5
	}
	for i := 0; i < nTop; i++ {
		q := configs.QueueConfig{Name: names[i]}
		if r.Chance(o.QueueMax) {
			q.Resources.Max = sparseRes(r, lo, hi, 750)
		}
		if r.Chance(o.Guaranteed) {
			q.Resources.Guaranteed = sparseRes(r, 1, lo, 750)
			if q.Resources.Max != nil && q.Resources.Guaranteed != nil {
				q.Resources.Guaranteed = capRes(q.Resources.Guaranteed, q.Resources.Max)
			}
		}
		if r.Chance(o.MaxApps) {
			q.MaxApplications = uint64(r.Range(1, 3))
			if root.MaxApplications > 0 && q.MaxApplications > root.MaxApplications {
				q.MaxApplications = root.MaxApplications
			}
		} else if root.MaxApplications > 0 {
			q.MaxApplications = root.MaxApplications
		}
		q.Limits = genLimits(r, o, users, groups, q.Resources.Max, rootLimits)
		isParent := r.Chance(450)
		q.Properties = queueProps(r, o, !isParent)
		path := "root." + q.Name
		if isParent {
			q.Parent = true
			nc := r.Range(1, 2)
			var gsum map[string]int
			for j := 0; j < nc; j++ {
				c := configs.QueueConfig{Name: names[j] + names[j]}
				if r.Chance(o.QueueMax) {
					c.Resources.Max = sparseRes(r, lo, hi, 750)
					if c.Resources.Max != nil && q.Resources.Max != nil {
						c.Resources.Max = capRes(c.Resources.Max, q.Resources.Max)
					}
				}
				if r.Chance(o.Guaranteed) && gsum == nil {
					c.Resources.Guaranteed = sparseRes(r, 1, 2, 750)
					if c.Resources.Guaranteed != nil {
						if c.Resources.Max != nil {
							c.Resources.Guaranteed = capRes(c.Resources.Guaranteed, c.Resources.Max)
						}
						if q.Resources.Max != nil {
							c.Resources.Guaranteed = capRes(c.Resources.Guaranteed, q.Resources.Max)
						}
						if q.Resources.Guaranteed != nil {
							c.Resources.Guaranteed = capRes(c.Resources.Guaranteed, q.Resources.Guaranteed)
						}
						gsum = map[string]int{}
					}
				}
				if q.MaxApplications > 0 {
					c.MaxApplications = uint64(r.Range(1, int(q.MaxApplications)))
				} else if r.Chance(o.MaxApps) {
					c.MaxApplications = uint64(r.Range(1, 3))
				}
				c.Limits = genLimits(r, o, users, groups, c.Resources.Max, q.Limits)
				c.Properties = queueProps(r, o, true)
				q.Queues = append(q.Queues, c)
				cp := path + "." + c.Name
				m.Leaves = append(m.Leaves, cp)
				if c.Properties["application.sort.policy"] != "fair" {
					m.FifoLeaves = append(m.FifoLeaves, cp)
				}
			}
			if o.Dynamic && r.Chance(600) {
				t := configs.ChildTemplate{}
				if r.Chance(600) {
					t.Resources.Max = sparseRes(r, lo, hi, 750)
					if t.Resources.Max != nil && q.Resources.Max != nil {
						t.Resources.Max = capRes(t.Resources.Max, q.Resources.Max)
					}
				}
				if r.Chance(400) {
					t.MaxApplications = uint64(r.Range(1, 2))
					if q.MaxApplications > 0 && t.MaxApplications > q.MaxApplications {
						t.MaxApplications = q.MaxApplications
					}
				}
				if r.Chance(300) {
					t.Properties = map[string]string{"application.sort.policy": "fifo"}
				}
				q.ChildTemplate = t
				m.DynParents = append(m.DynParents, path)
			}
		} else {
			m.Leaves = append(m.Leaves, path)
			if q.Properties["application.sort.policy"] != "fair" {
				m.FifoLeaves = append(m.FifoLeaves, path)
			}
		}
		root.Queues = append(root.Queues, q)
	}
	if o.Dynamic && len(m.DynParents) == 0 && r.Chance(500) {
		root.Queues = append(root.Queues, configs.QueueConfig{Name: "dyn", Parent: true})
		m.DynParents = append(m.DynParents, "root.dyn")
	}
	part := configs.PartitionConfig{Name: "default", Queues: []configs.QueueConfig{root}}
	part.PlacementRules = []configs.PlacementRule{{Name: "provided", Create: true}}
	switch r.Intn(3) {
	case 0:
		part.NodeSortPolicy = configs.NodeSortingPolicy{Type: "fair"}
	case 1:
		part.NodeSortPolicy = configs.NodeSortingPolicy{Type: "binpacking"}
	default:
		part.NodeSortPolicy = configs.NodeSortingPolicy{Type: []string{"fair", "binpacking"}[r.Intn(2)], ResourceWeights: map[string]float64{"memory": float64(r.Range(1, 4)), "vcore": float64(r.Range(0, 3))}}
	}
	if o.Preemption {
		t := true
		part.Preemption.Enabled = &t
	} else if r.Chance(300) {
		f := false
		part.Preemption.Enabled = &f
	}
	if o.QuotaPreemption {
		t := true
		part.Preemption.QuotaPreemptionEnabled = &t
	}
	m.Conf = &configs.SchedulerConfig{Partitions: []configs.PartitionConfig{part}}
	return m
}

// milliVcore rewrites every vcore quantity of the configuration as milli cores ("4" -> "4m"): the SI messages of the
// harness use small raw numbers, an unsuffixed vcore value in the configuration would be a thousand times larger and
// no vcore limit would ever bind.
func milliVcore(conf *configs.SchedulerConfig) {
	fix := func(m map[string]string) {
		if v, ok := m["vcore"]; ok && !strings.HasSuffix(v, "m") {
			m["vcore"] = v + "m"
		}
	}
	var walk func(q *configs.QueueConfig)
	walk = func(q *configs.QueueConfig) {
		fix(q.Resources.Max)
		fix(q.Resources.Guaranteed)
		fix(q.ChildTemplate.Resources.Max)
		fix(q.ChildTemplate.Resources.Guaranteed)
		for i := range q.Limits {
			fix(q.Limits[i].MaxResources)
		}
		for i := range q.Queues {
			walk(&q.Queues[i])
		}
	}
	for pi := range conf.Partitions {
		for qi := range conf.Partitions[pi].Queues {
			walk(&conf.Partitions[pi].Queues[qi])
		}
	}
}
