package det

import (
	"crypto/sha256"
	"encoding/hex"
	"encoding/json"
	"fmt"
	"math"
	"os"
	"sort"
	"strings"
	"time"

	"github.com/apache/yunikorn-core/pkg/scheduler/objects"
	siCommon "github.com/apache/yunikorn-scheduler-interface/lib/go/common"
	"github.com/apache/yunikorn-scheduler-interface/lib/go/si"

	"verifharness/res"
	"verifharness/shim"
	"verifharness/world"
)

// hostileMsg is one message of the hostile generator.
type hostileMsg struct {
	Class  string                 `json:"class"`
	Expect string                 `json:"expect"` // rejectApp | rejectAlloc | rejectNode | unchanged | any
	ID     string                 `json:"id,omitempty"`
	App    *si.ApplicationRequest `json:"app,omitempty"`
	Alloc  *si.AllocationRequest  `json:"alloc,omitempty"`
	Node   *si.NodeRequest        `json:"node,omitempty"`
}

var weirdStrings = []string{"", " ", "\x00", "root", "root.", ".", "..", "a b", "Ünï©ødé-💥", strings.Repeat("x", 300), "root.@recovery@", "*", "[rm:1]default", "app1", "n1"}

func (g *Gen) weird() string { return weirdStrings[g.R.Intn(len(weirdStrings))] }

func (g *Gen) hostileRes() *si.Resource {
	switch g.R.Intn(9) {
	case 0:
		return nil
	case 1:
		return &si.Resource{}
	case 2:
		return &si.Resource{Resources: map[string]*si.Quantity{}}
	case 3:
		return res.R{"memory": 0}.Proto()
	case 4:
		return res.R{"memory": -1, "vcore": 1}.Proto()
	case 5:
		return res.R{"memory": math.MinInt64}.Proto()
	case 6:
		return res.R{"memory": math.MaxInt64, "vcore": math.MaxInt64}.Proto()
	case 7:
		return res.R{"": 1, "Ünï": 2}.Proto()
	default:
		return res.R{"memory": 1, "vcore": 1}.Proto()
	}
}

// isValidPositive: the resource is something the protocol accepts for an ask.
func isValidPositive(r *si.Resource) bool {
	if r == nil || len(r.Resources) == 0 {
		return false
	}
	pos := false
	for _, q := range r.Resources {
		if q.Value < 0 {
			return false
		}
		if q.Value > 0 {
			pos = true
		}
	}
	return pos
}

func (g *Gen) hostile() *hostileMsg {
	r := g.R
	rm := "rm:1"
	liveApps := g.liveApps()
	liveNodes := g.liveNodes()
	someApp := "nosuchapp"
	if len(liveApps) > 0 && r.Chance(600) {
		someApp = r.Pick(liveApps)
	}
	g.keyN++
	key := fmt.Sprintf("hostile-k%d", g.keyN)
	switch r.Intn(24) {
	case 0: // application for a partition that does not exist
		id := fmt.Sprintf("hostile-app%d", g.keyN)
		return &hostileMsg{Class: "app-unknown-partition", Expect: "rejectApp", ID: id, App: &si.ApplicationRequest{RmID: rm, New: []*si.AddApplicationRequest{{ApplicationID: id, QueueName: "root.a", PartitionName: "nopart", Ugi: &si.UserGroupInformation{User: "u1"}}}}}
	case 1: // duplicate application id
		if len(liveApps) == 0 {
			return nil
		}
		id := r.Pick(liveApps)
		return &hostileMsg{Class: "app-duplicate-id", Expect: "rejectApp", ID: id, App: &si.ApplicationRequest{RmID: rm, New: []*si.AddApplicationRequest{{ApplicationID: id, QueueName: r.Pick(g.M.Leaves), PartitionName: "default", Ugi: &si.UserGroupInformation{User: "u2"}}}}}
	case 2: // no user information
		id := fmt.Sprintf("hostile-app%d", g.keyN)
		tags := map[string]string{}
		cls := "app-no-ugi"
		if r.Chance(500) {
			tags[siCommon.AppTagCreateForce] = "true"
			cls = "app-no-ugi-forced"
		}
		exp := "rejectApp"
		if cls == "app-no-ugi-forced" {
			exp = "any" // a forced application is placed no matter what
		}
		return &hostileMsg{Class: cls, Expect: exp, ID: id, App: &si.ApplicationRequest{RmID: rm, New: []*si.AddApplicationRequest{{ApplicationID: id, QueueName: r.Pick(g.M.Leaves), PartitionName: "default", Tags: tags}}}}
	case 3: // weird strings everywhere in an application
		id := g.weird()
		return &hostileMsg{Class: "app-weird-strings", Expect: "any", ID: id, App: &si.ApplicationRequest{RmID: rm, New: []*si.AddApplicationRequest{{ApplicationID: id, QueueName: g.weird(), PartitionName: "default",
			Ugi: &si.UserGroupInformation{User: g.weird(), Groups: []string{g.weird(), ""}}, Tags: map[string]string{g.weird(): g.weird(), siCommon.AppTagNamespaceResourceQuota: g.weird(), siCommon.AppTagNamespaceResourceMaxApps: "-1"},
			ExecutionTimeoutMilliSeconds: int64(r.Intn(3)-1) * math.MaxInt64, PlaceholderAsk: g.hostileRes(), GangSchedulingStyle: g.weird()}}}}
	case 4: // remove an application that does not exist / empty / unknown partition
		return &hostileMsg{Class: "app-remove-unknown", Expect: "unchanged", App: &si.ApplicationRequest{RmID: rm, Remove: []*si.RemoveApplicationRequest{{ApplicationID: "nosuchapp" + g.weird(), PartitionName: []string{"default", "nopart", ""}[r.Intn(3)]}}}}
	case 5: // ask for an application that does not exist
		return &hostileMsg{Class: "alloc-unknown-app", Expect: "rejectAlloc", ID: key, Alloc: &si.AllocationRequest{RmID: rm, Allocations: []*si.Allocation{{AllocationKey: key, ApplicationID: "nosuchapp", PartitionName: "default", ResourcePerAlloc: res.R{"memory": 1}.Proto()}}}}
	case 6: // ask without usable resources
		rs := g.hostileRes()
		if isValidPositive(rs) || len(liveApps) == 0 {
			return nil
		}
		return &hostileMsg{Class: "alloc-bad-resources", Expect: "rejectAlloc", ID: key, Alloc: &si.AllocationRequest{RmID: rm, Allocations: []*si.Allocation{{AllocationKey: key, ApplicationID: r.Pick(liveApps), PartitionName: "default", ResourcePerAlloc: rs}}}}
	case 7: // ask for a partition that does not exist
		return &hostileMsg{Class: "alloc-unknown-partition", Expect: "rejectAlloc", ID: key, Alloc: &si.AllocationRequest{RmID: rm, Allocations: []*si.Allocation{{AllocationKey: key, ApplicationID: someApp, PartitionName: "nopart", ResourcePerAlloc: res.R{"memory": 1}.Proto()}}}}
	case 8: // allocation bound to a node that does not exist
		if len(liveApps) == 0 {
			return nil
		}
		return &hostileMsg{Class: "alloc-unknown-node", Expect: "rejectAlloc", ID: key, Alloc: &si.AllocationRequest{RmID: rm, Allocations: []*si.Allocation{{AllocationKey: key, ApplicationID: r.Pick(liveApps), PartitionName: "default", NodeID: "nosuchnode", ResourcePerAlloc: res.R{"memory": 1}.Proto()}}}}
	case 9: // foreign allocation without node / unknown node
		node := []string{"", "nosuchnode"}[r.Intn(2)]
		return &hostileMsg{Class: "foreign-bad-node", Expect: "rejectAlloc", ID: key, Alloc: &si.AllocationRequest{RmID: rm, Allocations: []*si.Allocation{{AllocationKey: key, PartitionName: "default", NodeID: node, ResourcePerAlloc: res.R{"memory": 1}.Proto(), AllocationTags: map[string]string{siCommon.Foreign: g.weird()}}}}}
	case 10: // placeholder without task group
		if len(liveApps) == 0 {
			return nil
		}
		return &hostileMsg{Class: "placeholder-no-taskgroup", Expect: "rejectAlloc", ID: key, Alloc: &si.AllocationRequest{RmID: rm, Allocations: []*si.Allocation{{AllocationKey: key, ApplicationID: r.Pick(liveApps), PartitionName: "default", Placeholder: true, ResourcePerAlloc: res.R{"memory": 1}.Proto()}}}}
	case 11, 12: // release of something that does not exist, every termination type incl. out of range
		term := si.TerminationType(r.Intn(8) - 1)
		app := []string{"nosuchapp", someApp, ""}[r.Intn(3)]
		part := []string{"default", "nopart", ""}[r.Intn(3)]
		return &hostileMsg{Class: "release-unknown", Expect: "unchanged", Alloc: &si.AllocationRequest{RmID: rm, Releases: &si.AllocationReleasesRequest{AllocationsToRelease: []*si.AllocationRelease{{PartitionName: part, ApplicationID: app, AllocationKey: "nosuchkey-" + g.weird(), TerminationType: term, Message: g.weird()}}}}}
	case 13: // release of a real key with an unexpected termination type
		keys := g.keysIn(PhPending, PhBound)
		if len(keys) == 0 {
			return nil
		}
		k := r.Pick(keys)
		term := []si.TerminationType{si.TerminationType_UNKNOWN_TERMINATION_TYPE, si.TerminationType_TIMEOUT, si.TerminationType_PREEMPTED_BY_SCHEDULER, si.TerminationType_PLACEHOLDER_REPLACED, 17}[r.Intn(5)]
		return &hostileMsg{Class: "release-unexpected-type", Expect: "consistent", ID: k, Alloc: &si.AllocationRequest{RmID: rm, Releases: &si.AllocationReleasesRequest{AllocationsToRelease: []*si.AllocationRelease{{PartitionName: "default", ApplicationID: g.E.V.Keys[k].App, AllocationKey: k, TerminationType: term}}}}}
	case 14: // node update / drain / decommission for a node that does not exist, or unknown partition, or out of range action
		action := si.NodeInfo_ActionFromRM([]int32{2, 3, 4, 5, 0, 42, -1}[r.Intn(7)])
		attrs := map[string]string{}
		if r.Chance(300) {
			attrs[siCommon.NodePartition] = "nopart"
		}
		return &hostileMsg{Class: "node-unknown", Expect: "unchanged", Node: &si.NodeRequest{RmID: rm, Nodes: []*si.NodeInfo{{NodeID: "nosuchnode" + g.weird(), Action: action, Attributes: attrs, SchedulableResource: g.hostileRes()}}}}
	case 15: // duplicate node
		if len(liveNodes) == 0 {
			return nil
		}
		id := r.Pick(liveNodes)
		return &hostileMsg{Class: "node-duplicate", Expect: "rejectNode", ID: id, Node: &si.NodeRequest{RmID: rm, Nodes: []*si.NodeInfo{{NodeID: id, Action: si.NodeInfo_CREATE, SchedulableResource: res.R{"memory": 5}.Proto()}}}}
	case 16: // node for unknown partition
		id := fmt.Sprintf("hostile-n%d", g.keyN)
		return &hostileMsg{Class: "node-unknown-partition", Expect: "rejectNode", ID: id, Node: &si.NodeRequest{RmID: rm, Nodes: []*si.NodeInfo{{NodeID: id, Action: si.NodeInfo_CREATE, Attributes: map[string]string{siCommon.NodePartition: "nopart"}, SchedulableResource: res.R{"memory": 5}.Proto()}}}}
	case 17: // known node, out of range / unknown action, nothing else set
		if len(liveNodes) == 0 {
			return nil
		}
		return &hostileMsg{Class: "node-unknown-action", Expect: "unchanged", Node: &si.NodeRequest{RmID: rm, Nodes: []*si.NodeInfo{{NodeID: r.Pick(liveNodes), Action: si.NodeInfo_ActionFromRM([]int32{0, 42, -7}[r.Intn(3)])}}}}
	case 18: // empty requests, unset sub messages
		switch r.Intn(5) {
		case 0:
			return &hostileMsg{Class: "empty-request", Expect: "unchanged", Alloc: &si.AllocationRequest{RmID: rm}}
		case 1:
			return &hostileMsg{Class: "empty-request", Expect: "unchanged", Alloc: &si.AllocationRequest{RmID: rm, Releases: &si.AllocationReleasesRequest{}}}
		case 2:
			return &hostileMsg{Class: "empty-request", Expect: "unchanged", App: &si.ApplicationRequest{RmID: rm}}
		case 3:
			return &hostileMsg{Class: "empty-request", Expect: "unchanged", Node: &si.NodeRequest{RmID: rm}}
		default:
			return &hostileMsg{Class: "empty-request", Expect: "unchanged", Node: &si.NodeRequest{RmID: rm, Nodes: []*si.NodeInfo{{}}}}
		}
	case 19: // node create with weird content
		id := g.weird()
		return &hostileMsg{Class: "node-weird", Expect: "any", ID: id, Node: &si.NodeRequest{RmID: rm, Nodes: []*si.NodeInfo{{NodeID: id, Action: si.NodeInfo_ActionFromRM([]int32{1, 6}[r.Intn(2)]), SchedulableResource: g.hostileRes(), Attributes: map[string]string{g.weird(): g.weird(), siCommon.InstanceType: g.weird()}}}}}
	case 20: // ask with weird but possibly valid content for a live application
		if len(liveApps) == 0 {
			return nil
		}
		k := g.weird()
		rs := g.hostileRes()
		if rs != nil {
			for _, q := range rs.Resources {
				if q.Value > 1<<40 {
					return nil // the harness' own sums are plain int64: absurdly large valid asks are C18's business
				}
			}
		}
		return &hostileMsg{Class: "alloc-weird", Expect: "consistent", ID: k, Alloc: &si.AllocationRequest{RmID: rm, Allocations: []*si.Allocation{{AllocationKey: k, ApplicationID: r.Pick(liveApps), PartitionName: "default", ResourcePerAlloc: rs,
			Priority: int32(r.U64()), TaskGroupName: g.weird(), AllocationTags: map[string]string{siCommon.CreationTime: g.weird(), siCommon.DomainYuniKorn + siCommon.KeyRequiredNode: g.weird(), g.weird(): g.weird()}}}}}
	case 21: // update for a terminated / removed application
		return &hostileMsg{Class: "alloc-removed-app", Expect: "rejectAlloc", ID: key, Alloc: &si.AllocationRequest{RmID: rm, Allocations: []*si.Allocation{{AllocationKey: key, ApplicationID: "app-long-gone", PartitionName: "default", NodeID: r.Pick(append(liveNodes, "")), ResourcePerAlloc: res.R{"vcore": 1}.Proto()}}}}
	case 22: // unknown resource manager id
		return &hostileMsg{Class: "unknown-rm", Expect: "unchanged", Alloc: &si.AllocationRequest{RmID: "rm:other", Allocations: []*si.Allocation{{AllocationKey: key, ApplicationID: someApp, PartitionName: "default", ResourcePerAlloc: res.R{"memory": 1}.Proto()}}}}
	default: // release with empty key (all) for unknown application
		return &hostileMsg{Class: "release-all-unknown-app", Expect: "unchanged", Alloc: &si.AllocationRequest{RmID: rm, Releases: &si.AllocationReleasesRequest{AllocationsToRelease: []*si.AllocationRelease{{PartitionName: "default", ApplicationID: "nosuchapp", AllocationKey: ""}}}}}
	}
}

// ledger is the projection of a snapshot that an invalid item must leave exactly as it was.
func ledger(w *world.World) string {
	var b strings.Builder
	ids := sortedKeys(w.Nodes)
	for _, id := range ids {
		n := w.Nodes[id]
		fmt.Fprintf(&b, "N %s cap=%s occ=%s alloc=%s avail=%s sched=%v allocs=%v resv=%v\n", id, n.Cap, n.Occupied, n.Allocated, n.Available, n.Schedulable, sortedKeys(n.Allocs), n.Resvs)
	}
	for _, p := range sortedKeys(w.Queues) {
		q := w.Queues[p]
		fmt.Fprintf(&b, "Q %s state=%s alloc=%s pend=%s pre=%s run=%d allocating=%v apps=%v resv=%v max=%s\n", p, q.State, q.Allocated, q.Pending, q.Preempting, q.Running, q.Allocating, q.Apps, q.ReservedApps, q.Max)
	}
	for _, id := range sortedKeys(w.Apps) {
		a := w.Apps[id]
		fmt.Fprintf(&b, "A %s q=%s state=%s pend=%s alloc=%s ph=%s asks=%v allocs=%v resv=%v\n", id, a.Queue, a.State, a.Pending, a.Allocated, a.PHAlloc, sortedKeys(a.Asks), sortedKeys(a.Allocs), a.Resvs)
	}
	for _, u := range sortedKeys(w.Users) {
		t := w.Users[u]
		for _, p := range sortedKeys(t.Queues) {
			fmt.Fprintf(&b, "U %s %s usage=%s running=%v\n", u, p, t.Queues[p].Usage, t.Queues[p].Running)
		}
	}
	for _, u := range sortedKeys(w.Groups) {
		t := w.Groups[u]
		for _, p := range sortedKeys(t.Queues) {
			fmt.Fprintf(&b, "G %s %s usage=%s\n", u, p, t.Queues[p].Usage)
		}
	}
	fmt.Fprintf(&b, "F %v\n", w.Foreign)
	return b.String()
}

func diffLines(a, b string) string {
	la, lb := strings.Split(a, "\n"), strings.Split(b, "\n")
	ma := map[string]bool{}
	for _, l := range la {
		ma[l] = true
	}
	mb := map[string]bool{}
	for _, l := range lb {
		mb[l] = true
	}
	var out []string
	for _, l := range la {
		if !mb[l] {
			out = append(out, "- "+l)
		}
	}
	for _, l := range lb {
		if !ma[l] {
			out = append(out, "+ "+l)
		}
	}
	sort.Strings(out)
	if len(out) > 8 {
		out = out[:8]
	}
	return strings.Join(out, "\n")
}

// RunHostileCase: a legal history prefix, then hostile messages one by one, each logged before it is sent.
func RunHostileCase(seed uint64, replayDir string, cmdLog *os.File) *CaseResult {
	out := &CaseResult{Prop: "C13", Seed: seed, Obs: map[string]int64{}}
	r := NewRng(seed)
	prof := ProfileFor("C03")
	prof.Steps = [2]int{5, 60}
	m := GenConfig(NewRng(Mix(seed, 1)), prof.Cfg)
	c, err := shim.Start("rm:1", m.YAML, true, nil)
	if err != nil {
		out.Inconclusive = "core did not start: " + err.Error()
		return out
	}
	defer c.Stop()
	objects.VerifSetTimings(0, -1, 24*time.Hour, 24*time.Hour)
	e := NewEngine(c, m.YAML)
	e.CheckProp = "C13"
	e.Cmd = cmdLog
	e.barrierTimeout = 30 * time.Second
	if !e.Init() {
		out.Inconclusive = e.Inconclusive
		return out
	}
	g := NewGen(r, m, e, prof)
	for i, n := 0, r.Range(1, 3); i < n; i++ {
		if op := g.make(OpAddNode); op != nil {
			e.Do(op)
		}
	}
	for i, n := 0, r.Range(1, 3); i < n; i++ {
		if op := g.make(OpAddApp); op != nil {
			e.Do(op)
		}
	}
	steps := r.Range(prof.Steps[0], prof.Steps[1])
	for i := 0; i < steps && e.Inconclusive == "" && len(e.Viol) == 0; i++ {
		e.Do(g.Next())
	}
	// violations of other properties in the legal prefix are not C13's business
	e.Viol = nil
	hh := sha256.New()
	var sample []string
	hostileN := r.Range(15, 30)
	for i := 0; i < hostileN && e.Inconclusive == ""; i++ {
		msg := g.hostile()
		if msg == nil {
			continue
		}
		b, _ := json.Marshal(msg)
		hh.Write(b)
		if cmdLog != nil {
			fmt.Fprintf(cmdLog, "HOSTILE %s %s\n", msg.Class, b)
		}
		if len(sample) < 12 {
			s := string(b)
			if len(s) > 400 {
				s = s[:400] + "..."
			}
			sample = append(sample, s)
		}
		pre := e.Cur
		t0 := c.S.TraceLen()
		state := "idle"
		if len(pre.Apps) > 0 {
			state = "apps"
		}
		if pre.NAllocs > 0 {
			state = "allocs"
		}
		if pre.NResv > 0 {
			state += "+resv"
		}
		out.Obs["c13.class:"+msg.Class]++
		out.Obs["c13.pair:"+msg.Class+"@"+state]++
		out.Obs["c13.messages"]++
		switch {
		case msg.App != nil:
			_ = c.Proxy.UpdateApplication(msg.App)
		case msg.Alloc != nil:
			_ = c.Proxy.UpdateAllocation(msg.Alloc)
		case msg.Node != nil:
			_ = c.Proxy.UpdateNode(msg.Node)
		}
		if !e.settle() {
			// a hang: the barrier did not come back within 30 s
			if e.Inconclusive == "barrier watchdog" {
				e.Inconclusive = ""
				e.Viol = append(e.Viol, Violation{Prop: "C13", Rule: "hang", Signature: "C13/hang/" + msg.Class, Text: "the core did not answer within 30 s after " + string(b)})
			}
			break
		}
		evs := c.S.TraceFrom(t0)
		if os.Getenv("VERIF_VERBOSE") != "" {
			fmt.Println("HOSTILE", string(b))
			for _, ev := range evs {
				fmt.Println("    ", ev.String())
			}
		}
		post := world.Snap(c.Partition())
		e.Cur = post
		e.StepN++
		rejected := func(kind string) bool {
			for _, ev := range evs {
				if ev.Dir == "recv" && ev.Kind == kind && (ev.App == msg.ID || ev.Key == msg.ID || ev.Node == msg.ID) {
					return true
				}
			}
			return false
		}
		bad := func(rule, text string) {
			e.Viol = append(e.Viol, Violation{Prop: "C13", Rule: rule, Signature: "C13/" + rule + "/" + msg.Class, Text: text + "; message: " + string(b), Step: e.StepN})
		}
		unchanged := func() {
			lp, lq := ledger(pre), ledger(post)
			if lp != lq {
				bad("state-changed-by-invalid-item", "an invalid item changed the accounting:\n"+diffLines(lp, lq))
			}
		}
		switch msg.Expect {
		case "rejectApp":
			if !rejected("rejectedApp") {
				bad("no-rejection", "no RejectedApplication answer for an invalid application")
			}
			unchanged()
		case "rejectAlloc":
			if !rejected("rejectedAlloc") {
				bad("no-rejection", "no RejectedAllocation answer for an invalid allocation")
			}
			unchanged()
		case "rejectNode":
			if !rejected("rejectedNode") {
				bad("no-rejection", "no RejectedNode answer for an invalid node")
			}
			unchanged()
		case "unchanged":
			unchanged()
		}
		// whatever the message was: the state must stay consistent (conservation)
		// only what the message broke counts: conservation violations that the legal prefix had already produced
		// (defects judged by C03) are not attributed to the hostile message
		nv := len(e.Viol)
		e.lastStep = &Step{N: e.StepN, Op: &Op{Kind: "hostile-pre"}, Pre: pre, Post: pre}
		e.checkC03(e.lastStep)
		before := map[string]bool{}
		for _, v := range e.Viol[nv:] {
			before[v.Rule+"|"+v.Text] = true
		}
		e.Viol = e.Viol[:nv]
		st := &Step{N: e.StepN, Op: &Op{Kind: "hostile"}, Pre: pre, Post: post, Evs: evs}
		e.lastStep = st
		e.checkC03(st)
		kept := e.Viol[:nv]
		for _, v := range e.Viol[nv:] {
			if before[v.Rule+"|"+v.Text] {
				e.obs("c13.conservation_broken_before_message", 1)
				continue
			}
			kept = append(kept, Violation{Prop: "C13", Rule: "state-corrupted", Signature: "C13/state-corrupted/" + msg.Class + "/" + v.Rule, Text: v.Text + "; after message: " + string(b), Step: e.StepN})
		}
		e.Viol = kept
		if len(e.Viol) > 0 {
			if os.Getenv("VERIF_VERBOSE") != "" {
				jb, _ := json.MarshalIndent(post.Apps, "", " ")
				fmt.Println(string(jb))
				for _, ev := range evs {
					fmt.Println(ev.String())
				}
			}
			break
		}
	}
	out.Steps = e.StepN
	out.Inconclusive = e.Inconclusive
	out.Violations = e.Viol
	out.Nontrivial = out.Obs["c13.messages"] >= 5
	out.Hash = hex.EncodeToString(hh.Sum(nil)[:12])
	out.Sample = &Sample{Seed: fmt.Sprintf("%#x", seed), Config: m.YAML, Ops: sample}
	return out
}

// HostileCrash turns a dead worker into a C13 verdict: the last HOSTILE line of the command log is the witness.
func HostileCrash(prop string, idx int, seed uint64, stderr string, cmdLogPath string, replayDir string) *CaseResult {
	b, _ := os.ReadFile(cmdLogPath)
	lines := strings.Split(string(b), "\n")
	last, cls := "", "legal-prefix"
	// only the part of the log that belongs to this case
	start := 0
	for i, l := range lines {
		if strings.HasPrefix(l, fmt.Sprintf("CASE %d ", idx)) {
			start = i
		}
	}
	for _, l := range lines[start:] {
		if strings.HasPrefix(l, "HOSTILE ") {
			parts := strings.SplitN(l, " ", 3)
			if len(parts) == 3 {
				cls, last = parts[1], parts[2]
			}
		}
		if strings.HasPrefix(l, "OP ") && last == "" {
			last = l
		}
	}
	if !strings.Contains(stderr, "panic:") && !strings.Contains(stderr, "fatal error:") {
		return nil
	}
	frame := "unknown"
	after := stderr
	if i := strings.Index(after, "[running]:"); i >= 0 {
		after = after[i:]
	}
	for _, l := range strings.Split(after, "\n") {
		if strings.HasPrefix(l, "github.com/apache/yunikorn-core/pkg/") {
			f := strings.TrimPrefix(l, "github.com/apache/yunikorn-core/pkg/")
			if i := strings.LastIndex(f, "("); i > 0 {
				f = f[:i]
			}
			frame = f
			break
		}
	}
	path := fmt.Sprintf("%s/C13-crash-%x.txt", replayDir, seed)
	_ = os.WriteFile(path, []byte("last message: "+last+"\n\n"+stderr), 0o644)
	txt := stderr
	if i := strings.Index(txt, "panic:"); i >= 0 {
		txt = txt[i:]
	}
	if len(txt) > 1500 {
		txt = txt[:1500]
	}
	return &CaseResult{Prop: "C13", Seed: seed, Nontrivial: true, Hash: fmt.Sprintf("crash-%x", seed), Replay: path,
		Violations: []Violation{{Prop: "C13", Rule: "panic", Signature: "C13/panic/" + frame + "/" + cls, Text: "the core crashed after: " + last + "\n" + txt}}}
}
