package det

import (
	"fmt"
	"sort"
	"strings"

	"verifharness/res"
	"verifharness/world"
)

// ---------------------------------------------------------------------------------------------------------
// C05: user and group quotas (enforcement + usage; the configuration monitor is in limits.go)
func trackerQT(t map[string]*world.Tracker, name, path string) *world.QT {
	if tr, ok := t[name]; ok {
		return tr.Queues[path]
	}
	return nil
}

func (e *Engine) checkC05(st *Step) {
	pre, post := st.Pre, st.Post
	if st.Op.Kind == OpSched {
		for _, b := range newBindings(st) {
			app := pre.Apps[b.App]
			if app == nil {
				continue
			}
			ask := app.Asks[b.Key]
			if ask == nil {
				continue
			}
			if b.A.ReleaseKey != "" && !b.A.Placeholder {
				continue // real half of a swap: usage moves at confirmation
			}
			u := app.User
			g := ""
			if tr := post.Users[u]; tr != nil {
				g = tr.Groups[b.App]
			}
			limited := false
			for _, q := range pathOf(pre, app.Queue) {
				for _, who := range []struct {
					kind, name string
					pre, post  map[string]*world.Tracker
				}{{"user", u, pre.Users, post.Users}, {"group", g, pre.Groups, post.Groups}} {
					if who.name == "" {
						continue
					}
					lim := trackerQT(who.post, who.name, q.Path)
					if lim == nil {
						continue
					}
					usage := res.R{}
					var running []string
					if p := trackerQT(who.pre, who.name, q.Path); p != nil {
						usage = p.Usage
						running = p.Running
					}
					if lim.MaxRes != nil {
						limited = true
						for k, v := range ask.Res {
							if v <= 0 {
								continue
							}
							if l, ok := lim.MaxRes[k]; ok && usage[k]+v > l {
								ctx := ""
								if e.Hist.Reloads > 0 {
									ctx = "/after-reload"
								}
								e.violate("C05", "over-"+who.kind+"-limit", ctx, fmt.Sprintf("allocation %s %s takes %s %s in queue %s to %d %s, limit %d (usage before %s)", b.Key, ask.Res, who.kind, who.name, q.Path, usage[k]+v, k, l, usage))
							}
						}
					}
					if lim.MaxApps > 0 {
						limited = true
						isRunning := false
						for _, r := range running {
							if r == b.App {
								isRunning = true
							}
						}
						if !isRunning && uint64(len(running))+1 > lim.MaxApps {
							ctx := ""
							for _, s := range app.StateLog {
								if s == "Completing" {
									ctx = "/restarted-from-completing"
								}
							}
							if e.Hist.Reloads > 0 {
								ctx += "/after-reload"
							}
							e.violate("C05", "over-"+who.kind+"-maxapps", ctx, fmt.Sprintf("allocation %s admits application %s as number %d of %s %s in queue %s, maximum %d", b.Key, b.App, len(running)+1, who.kind, who.name, q.Path, lim.MaxApps))
						}
					}
				}
			}
			e.obs("c05.bindings", 1)
			if limited {
				e.obs("c05.bindings_under_limit", 1)
			}
		}
	}
	// usage equals the live allocations
	e.checkUsage(post, "C05")
}

func (e *Engine) checkUsage(w *world.World, prop string) {
	type key struct{ who, path string }
	gctx := ""
	if e.Hist.Reloads > 0 {
		gctx = "/after-reload"
	}
	expU := map[key]res.R{}
	expG := map[key]res.R{}
	for id, a := range w.Apps {
		total := res.Add(a.Allocated, a.PHAlloc)
		if total.IsZero() {
			continue
		}
		g := ""
		if tr := w.Users[a.User]; tr != nil {
			g = tr.Groups[id]
		} else {
			e.violate(prop, "usage-user-untracked", "", fmt.Sprintf("application %s of user %s holds %s but the user has no tracker", id, a.User, total))
		}
		path := a.Queue
		for p := path; p != ""; {
			k := key{a.User, p}
			if expU[k] == nil {
				expU[k] = res.R{}
			}
			expU[k].AddTo(total)
			if g != "" {
				kg := key{g, p}
				if expG[kg] == nil {
					expG[kg] = res.R{}
				}
				expG[kg].AddTo(total)
			}
			i := strings.LastIndex(p, ".")
			if i < 0 {
				break
			}
			p = p[:i]
		}
	}
	for name, tr := range w.Users {
		for path, qt := range tr.Queues {
			e.obs("c05.usage_checks", 1)
			exp := expU[key{name, path}]
			if exp == nil {
				exp = res.R{}
			}
			if !res.Equal(exp, qt.Usage) {
				e.violate(prop, "usage-user", "", fmt.Sprintf("user %s tracked usage in %s is %s, live allocations of their applications there sum to %s", name, path, qt.Usage, exp.Pruned()))
			}
			delete(expU, key{name, path})
		}
	}
	for k, exp := range expU {
		if !exp.IsZero() {
			e.violate(prop, "usage-user", "/untracked-queue", fmt.Sprintf("user %s has live allocations %s in %s but no tracked usage there", k.who, exp.Pruned(), k.path))
		}
	}
	for name, tr := range w.Groups {
		for path, qt := range tr.Queues {
			exp := expG[key{name, path}]
			if exp == nil {
				exp = res.R{}
			}
			if !res.Equal(exp, qt.Usage) {
				e.violate(prop, "usage-group", gctx, fmt.Sprintf("group %s tracked usage in %s is %s, live allocations of its applications there sum to %s", name, path, qt.Usage, exp.Pruned()))
			}
			delete(expG, key{name, path})
		}
	}
	for k, exp := range expG {
		if !exp.IsZero() {
			e.violate(prop, "usage-group", "/untracked-queue"+gctx, fmt.Sprintf("group %s has live allocations %s in %s but no tracked usage there", k.who, exp.Pruned(), k.path))
		}
	}
}

// ---------------------------------------------------------------------------------------------------------
// C06: gang scheduling
func (e *Engine) checkC06(st *Step) {
	pre, post := st.Pre, st.Post
	// swaps announced in this step
	for _, ev := range st.Evs {
		if ev.Dir != "recv" || ev.Kind != "released" || ev.Term != "PLACEHOLDER_REPLACED" {
			continue
		}
		e.obs("c06.swaps_announced", 1)
		app := post.Apps[ev.App]
		if app == nil {
			continue
		}
		ph := app.Allocs[ev.Key]
		if ph == nil {
			continue
		}
		if !ph.Placeholder {
			e.violate("C06", "swap-of-non-placeholder", "", fmt.Sprintf("PLACEHOLDER_REPLACED announced for %s which is not a placeholder", ev.Key))
			continue
		}
		if ph.ReleaseKey == "" {
			continue // structural information missing: inconclusive for this rule
		}
		real := app.Asks[ph.ReleaseKey]
		if real == nil {
			// the link points to an ask of another application?
			for id, other := range post.Apps {
				if x := other.Asks[ph.ReleaseKey]; x != nil && id != ev.App {
					e.violate("C06", "swap-other-app", "", fmt.Sprintf("placeholder %s of application %s is replaced by ask %s of application %s", ev.Key, ev.App, ph.ReleaseKey, id))
				}
			}
			continue
		}
		if real.TaskGroup != ph.TaskGroup {
			e.violate("C06", "swap-other-taskgroup", "", fmt.Sprintf("placeholder %s (task group %s) replaced by ask %s (task group %s)", ev.Key, ph.TaskGroup, real.Key, real.TaskGroup))
		}
		if !res.LessEq(real.Res, ph.Res) {
			e.violate("C06", "swap-real-larger", "", fmt.Sprintf("placeholder %s %s replaced by larger ask %s %s", ev.Key, ph.Res, real.Key, real.Res))
		}
		if real.Placeholder {
			e.violate("C06", "swap-by-placeholder", "", fmt.Sprintf("placeholder %s replaced by placeholder ask %s", ev.Key, real.Key))
		}
	}
	// confirmation of a swap: the placeholder is gone, usage reflects the real allocation and never grew
	if (st.Op.Kind == OpConfirm || st.Op.Kind == OpDupConfirm || st.Op.Kind == OpReconfirm) && st.Op.Term == "PLACEHOLDER_REPLACED" {
		papp := pre.Apps[st.Op.App]
		if papp != nil {
			if ph := papp.Allocs[st.Op.Key]; ph != nil && ph.Placeholder && ph.ReleaseKey != "" {
				e.obs("c06.swaps_confirmed", 1)
				e.Hist.SwapsConfirmed++
				realKey := ph.ReleaseKey
				app := post.Apps[st.Op.App]
				if app != nil {
					if _, still := app.Allocs[st.Op.Key]; still {
						e.violate("C06", "placeholder-survives-confirm", "/app", fmt.Sprintf("placeholder %s still listed by application %s after the swap was confirmed", st.Op.Key, st.Op.App))
					}
					if papp.State == "Failing" {
						// a failing application does not start new allocations: the replacement is cancelled when the
						// placeholder is confirmed; the real allocation must then be nowhere
						e.obs("c06.swaps_cancelled_for_failing_app", 1)
						for nid, n := range post.Nodes {
							if _, on := n.Allocs[realKey]; on {
								e.violate("C06", "real-orphan-after-confirm", "/failing-app", fmt.Sprintf("real allocation %s is on node %s after the replacement of %s was confirmed for the failing application %s", realKey, nid, st.Op.Key, st.Op.App))
							}
						}
					} else if _, ok := app.Allocs[realKey]; !ok {
						e.violate("C06", "real-missing-after-confirm", "", fmt.Sprintf("real allocation %s not listed by application %s (%s) after the swap of %s was confirmed", realKey, st.Op.App, app.State, st.Op.Key))
					}
				} else {
					// the application left the live map: the real allocation must not be anywhere
					for nid, n := range post.Nodes {
						if _, ok := n.Allocs[realKey]; ok {
							e.violate("C06", "real-orphan-after-confirm", "", fmt.Sprintf("application %s is gone after confirming the swap of %s but real allocation %s is still on node %s", st.Op.App, st.Op.Key, realKey, nid))
						}
					}
				}
				for nid, n := range post.Nodes {
					if _, ok := n.Allocs[st.Op.Key]; ok {
						e.violate("C06", "placeholder-survives-confirm", "/node", fmt.Sprintf("placeholder %s still on node %s after the swap was confirmed", st.Op.Key, nid))
					}
					if pn := pre.Nodes[nid]; pn != nil && !res.LessEq(n.Allocated, pn.Allocated) {
						e.violate("C06", "usage-grew-on-confirm", "/node", fmt.Sprintf("node %s allocated grew from %s to %s when the swap of %s was confirmed", nid, pn.Allocated, n.Allocated, st.Op.Key))
					}
				}
				for path, q := range post.Queues {
					if pq := pre.Queues[path]; pq != nil && !res.LessEq(q.Allocated, pq.Allocated) {
						e.violate("C06", "usage-grew-on-confirm", "/queue", fmt.Sprintf("queue %s allocated grew from %s to %s when the swap of %s was confirmed", path, pq.Allocated, q.Allocated, st.Op.Key))
					}
				}
				for name, tr := range post.Users {
					for path, qt := range tr.Queues {
						if p := trackerQT(pre.Users, name, path); p != nil && !res.LessEq(qt.Usage, p.Usage) {
							e.violate("C06", "usage-grew-on-confirm", "/user", fmt.Sprintf("user %s usage in %s grew from %s to %s when the swap of %s was confirmed", name, path, p.Usage, qt.Usage, st.Op.Key))
						}
					}
				}
			}
		}
	}
	// placeholder data
	for id, a := range post.Apps {
		for _, p := range a.PH {
			if p.Replaced > p.Count {
				e.violate("C06", "replaced-exceeds-count", "", fmt.Sprintf("application %s task group %s: replaced %d of %d placeholders", id, p.TaskGroup, p.Replaced, p.Count))
			}
		}
	}
	// placeholder timeout
	if st.Op.Kind == OpFirePH {
		fired := false
		for _, ev := range st.Evs {
			if ev.Kind == "firedPH" && ev.Flag {
				fired = true
			}
		}
		papp := pre.Apps[st.Op.App]
		if fired && papp != nil {
			e.obs("c06.timeouts_fired", 1)
			noReal := papp.Allocated.IsZero()
			early := papp.State == "New" || papp.State == "Accepted"
			if early && noReal {
				e.obs("c06.timeouts_before_real", 1)
				app := post.Apps[st.Op.App]
				var state string
				if app != nil {
					state = app.State
				} else if d := findDone(post, st.Op.App); d != nil {
					state = d.State
				}
				style := e.GangStyle[st.Op.App]
				switch style {
				case "Hard":
					if state != "Failing" && state != "Failed" {
						e.violate("C06", "hard-timeout-not-failing", "", fmt.Sprintf("Hard gang application %s is %s after the placeholder timeout fired without real allocation", st.Op.App, state))
					}
				default:
					if state != "Resuming" && state != "Accepted" && state != "Running" && state != "Completing" {
						e.violate("C06", "soft-timeout-not-resuming", "", fmt.Sprintf("Soft gang application %s is %s after the placeholder timeout fired without real allocation", st.Op.App, state))
					}
				}
				// every placeholder allocation got a TIMEOUT release (or already had a release pending), every placeholder ask is gone
				released := map[string]bool{}
				for _, ev := range st.Evs {
					if ev.Dir == "recv" && ev.Kind == "released" && ev.Term == "TIMEOUT" {
						released[ev.Key] = true
					}
				}
				for k, al := range papp.Allocs {
					if al.Placeholder && !al.Released && !al.Preempted && !released[k] {
						e.violate("C06", "timeout-placeholder-not-released", "", fmt.Sprintf("placeholder allocation %s of %s got no TIMEOUT release when the placeholder timeout fired", k, st.Op.App))
					}
				}
				if app != nil {
					for k, as := range app.Asks {
						if as.Placeholder && !as.Allocated {
							e.violate("C06", "timeout-placeholder-ask-left", "", fmt.Sprintf("placeholder ask %s of %s still pending after the placeholder timeout", k, st.Op.App))
						}
					}
				}
			}
		}
	}
	// no placeholder outlives its application
	for nid, n := range post.Nodes {
		for k, al := range n.Allocs {
			if !al.Placeholder || al.Foreign {
				continue
			}
			if _, live := post.Apps[al.App]; !live {
				e.violate("C06", "placeholder-outlives-app", "", fmt.Sprintf("placeholder %s on node %s belongs to application %s which is not live", k, nid, al.App))
			}
		}
	}
}

func findDone(w *world.World, id string) *world.App {
	for _, a := range w.Done {
		if a.ID == id {
			return a
		}
	}
	return nil
}

// ---------------------------------------------------------------------------------------------------------
// C09: reservations
func (e *Engine) checkC09(st *Step) {
	w := st.Post
	type triple struct{ app, key, node string }
	fromApps := map[triple]bool{}
	fromNodes := map[triple]bool{}
	perKey := map[string][]string{}
	total := 0
	for id, a := range w.Apps {
		for _, r := range a.Resvs {
			fromApps[triple{id, r.Key, r.Node}] = true
			ask := a.Asks[r.Key]
			if ask == nil {
				e.violate("C09", "reservation-for-missing-ask", "", fmt.Sprintf("application %s holds a reservation for ask %s on %s which is no longer outstanding", id, r.Key, r.Node))
			} else if ask.Allocated {
				e.violate("C09", "reservation-for-allocated-ask", "", fmt.Sprintf("application %s holds a reservation for ask %s on %s which is allocated", id, r.Key, r.Node))
			}
			if _, ok := w.Nodes[r.Node]; !ok {
				e.violate("C09", "reservation-on-removed-node", "", fmt.Sprintf("application %s holds a reservation for ask %s on node %s which is not registered", id, r.Key, r.Node))
			}
		}
		n := 0
		if q := w.Queues[a.Queue]; q != nil {
			n = q.ReservedApps[id]
		}
		if n != len(a.Resvs) {
			e.violate("C09", "queue-reserved-count", "", fmt.Sprintf("queue %s counts %d reservations for application %s which holds %d", a.Queue, n, id, len(a.Resvs)))
		}
	}
	for path, q := range w.Queues {
		for id, n := range q.ReservedApps {
			if a, ok := w.Apps[id]; !ok || a.Queue != path {
				if n != 0 {
					e.violate("C09", "queue-reserved-stale", "", fmt.Sprintf("queue %s counts %d reservations for application %s which is not a live application of it", path, n, id))
				}
			}
		}
	}
	for id, n := range w.Nodes {
		normal := 0
		for _, r := range n.Resvs {
			total++
			fromNodes[triple{r.App, r.Key, id}] = true
			perKey[r.Key] = append(perKey[r.Key], id)
			if !r.ReqNode {
				normal++
			}
			if _, ok := w.Apps[r.App]; !ok {
				e.violate("C09", "reservation-of-removed-app", "", fmt.Sprintf("node %s is reserved for ask %s of application %s which is not live", id, r.Key, r.App))
			}
		}
		if len(n.Resvs) > 1 && normal > 0 {
			e.violate("C09", "node-multiple-reservations", "", fmt.Sprintf("node %s carries %d reservations of which %d do not require the node", id, len(n.Resvs), normal))
		}
	}
	for k, nodes := range perKey {
		if len(nodes) > 1 {
			sort.Strings(nodes)
			e.violate("C09", "ask-reserved-twice", "", fmt.Sprintf("ask %s is reserved on nodes %v", k, nodes))
		}
	}
	for t := range fromApps {
		if !fromNodes[t] {
			e.violate("C09", "views-differ", "/app-only", fmt.Sprintf("application %s reserves ask %s on node %s but the node does not know", t.app, t.key, t.node))
		}
	}
	for t := range fromNodes {
		if !fromApps[t] {
			e.violate("C09", "views-differ", "/node-only", fmt.Sprintf("node %s is reserved for ask %s of application %s but the application does not know", t.node, t.key, t.app))
		}
	}
	if total > 0 {
		e.obs("c09.reservations_seen", int64(total))
		if w.NResv <= 0 {
			e.violate("C09", "counter-zero-with-reservations", "", fmt.Sprintf("partition reservation counter is %d while %d reservations exist", w.NResv, total))
		}
	}
	// created / removed by something other than allocation
	preN := 0
	for _, n := range st.Pre.Nodes {
		preN += len(n.Resvs)
	}
	if total > preN {
		e.obs("c09.reservations_created", int64(total-preN))
	}
	if total < preN {
		if st.Op.Kind != OpSched {
			e.obs("c09.reservations_removed_not_by_allocation", int64(preN-total))
		} else {
			e.obs("c09.reservations_removed_by_scheduling", int64(preN-total))
		}
	}
}

// ---------------------------------------------------------------------------------------------------------
// C10: application life cycle
var legalNext = map[string]map[string]bool{
	"New":        {"Accepted": true, "Rejected": true, "Failing": true, "Resuming": true},
	"Accepted":   {"Running": true, "Completing": true, "Failing": true, "Resuming": true},
	"Running":    {"Completing": true, "Failing": true},
	"Completing": {"Running": true, "Completed": true},
	"Failing":    {"Failed": true},
	"Resuming":   {"Accepted": true},
	"Completed":  {"Expired": true},
	"Failed":     {"Expired": true},
	"Rejected":   {"Expired": true},
}

func (e *Engine) checkC10(st *Step) {
	pre, post := st.Pre, st.Post
	// the update stream
	for _, ev := range st.Evs {
		if ev.Dir != "recv" || ev.Kind != "updatedApp" {
			continue
		}
		seq := e.Hist.AppStates[ev.App]
		prev := "New"
		if len(seq) > 0 {
			prev = seq[len(seq)-1]
		}
		if !legalNext[prev][ev.State] {
			e.violate("C10", "illegal-transition", "/"+prev+"->"+ev.State, fmt.Sprintf("application %s reported %s after %s (update stream)", ev.App, ev.State, prev))
		}
		e.Hist.AppStates[ev.App] = append(seq, ev.State)
		e.Hist.States[ev.State] = true
		e.obs("c10.transitions", 1)
		if prev == "Completing" && ev.State == "Running" {
			e.obs("c10.restarts", 1)
		}
	}
	all := []map[string]*world.App{post.Apps, post.Done}
	for _, m := range all {
		for _, a := range m {
			// state log
			prev := "New"
			for i, s := range a.StateLog {
				if i == 0 && s == "New" {
					continue
				}
				if !legalNext[prev][s] {
					e.violate("C10", "illegal-transition", "/"+prev+"->"+s, fmt.Sprintf("application %s state log has %s after %s: %v", a.ID, s, prev, a.StateLog))
					break
				}
				prev = s
			}
			// streams agree (the update stream does not carry Rejected)
			seq := e.Hist.AppStates[a.ID]
			if a.Where == "live" || a.Where == "completed" {
				var logSeq []string
				for _, s := range a.StateLog {
					if s != "New" {
						logSeq = append(logSeq, s)
					}
				}
				if len(seq) > 0 && len(logSeq) > 0 && a.Where == "live" {
					if strings.Join(seq, ",") != strings.Join(logSeq, ",") && !isSuffix(seq, logSeq) {
						e.violate("C10", "streams-disagree", "", fmt.Sprintf("application %s: update stream %v, state log %v", a.ID, seq, logSeq))
					}
				}
			}
			if a.State == "Completed" {
				outstanding := 0
				for _, as := range a.Asks {
					if !as.Allocated {
						outstanding++
					}
				}
				realAllocs := 0
				for _, al := range a.Allocs {
					if !al.Placeholder {
						realAllocs++
					}
				}
				onNodes := 0
				for _, n := range post.Nodes {
					for _, al := range n.Allocs {
						if al.App == a.ID && !al.Foreign && !al.Placeholder {
							onNodes++
						}
					}
				}
				if outstanding > 0 || realAllocs > 0 || onNodes > 0 {
					e.violate("C10", "completed-with-work", "", fmt.Sprintf("application %s is Completed with %d outstanding asks, %d real allocations listed, %d real allocations on nodes", a.ID, outstanding, realAllocs, onNodes))
				}
			}
		}
	}
	// terminated applications leave the queue
	for _, a := range post.Done {
		for path, q := range post.Queues {
			for _, x := range q.Apps {
				if x == a.ID {
					if _, live := post.Apps[a.ID]; !live {
						e.violate("C10", "terminated-app-in-queue", "", fmt.Sprintf("terminated application %s (%s) is still listed by queue %s", a.ID, a.State, path))
					}
				}
			}
		}
	}
	// bounded progress: an Accepted/Running application that lost its last ask/allocation in this step is Completing
	for id, a := range post.Apps {
		p := pre.Apps[id]
		if p == nil {
			continue
		}
		hadWork := !p.Pending.IsZero() || !p.Allocated.IsZero() || !p.PHAlloc.IsZero()
		hasWork := !a.Pending.IsZero() || !a.Allocated.IsZero() || !a.PHAlloc.IsZero() || len(a.Allocs) > 0
		inflight := false
		for _, as := range a.Asks {
			if as.Allocated {
				inflight = true // includes real halves of swaps and TIMEOUT-released placeholders waiting for cleanup
			}
		}
		if hadWork && !hasWork && !inflight && (p.State == "Running" || p.State == "Accepted") && (st.Op.Kind == OpRelease || st.Op.Kind == OpConfirm) {
			e.obs("c10.last_work_removed", 1)
			if a.State != "Completing" && a.State != "Completed" {
				e.violate("C10", "not-completing", "", fmt.Sprintf("application %s lost its last ask/allocation in step %s but is %s", id, st.Op.Kind, a.State))
			}
		}
	}
	if st.Op.Kind == OpFireState {
		fired := false
		for _, ev := range st.Evs {
			if ev.Kind == "firedState" && ev.Flag {
				fired = true
			}
		}
		p := pre.Apps[st.Op.App]
		if fired && p != nil && p.State == "Completing" {
			e.obs("c10.completing_timer_fired", 1)
			if p.PHAlloc.IsZero() {
				// undisturbed: must be Completed, out of the live map and out of its queue
				if a, live := post.Apps[st.Op.App]; live {
					e.violate("C10", "completing-not-completed", "", fmt.Sprintf("application %s is %s (still live) after the completing timer fired", st.Op.App, a.State))
				} else if d := findDone(post, st.Op.App); d == nil || d.State != "Completed" {
					s := "absent"
					if d != nil {
						s = d.State
					}
					e.violate("C10", "completing-not-completed", "/done", fmt.Sprintf("application %s is %s after the completing timer fired", st.Op.App, s))
				}
			}
		}
	}
	// terminated applications no longer accept asks
	if st.Op.Kind == OpAsk {
		if va := e.V.Apps[st.Op.App]; va != nil && len(va.States) > 0 {
			last := ""
			// state before this step: look at pre world
			if _, live := pre.Apps[st.Op.App]; !live {
				if d := findDone(pre, st.Op.App); d != nil {
					last = d.State
				}
			}
			if last == "Completed" || last == "Failed" || last == "Expired" {
				e.obs("c10.asks_to_terminated", 1)
				rejected := false
				for _, ev := range st.Evs {
					if ev.Dir == "recv" && ev.Kind == "rejectedAlloc" && ev.Key == st.Op.Key {
						rejected = true
					}
				}
				if !rejected {
					e.violate("C10", "terminated-accepts-ask", "", fmt.Sprintf("ask %s for terminated application %s (%s) was not rejected", st.Op.Key, st.Op.App, last))
				}
			}
		}
	}
}

func isSuffix(long, short []string) bool {
	// the update stream may be longer than the log never; the log may hold a leading New; tolerate equal tails
	if len(short) > len(long) {
		long, short = short, long
	}
	off := len(long) - len(short)
	for i := range short {
		if long[off+i] != short[i] {
			return false
		}
	}
	return true
}

// ---------------------------------------------------------------------------------------------------------
// C11: queue max-applications gate
func (e *Engine) checkC11(st *Step) {
	pre, post := st.Pre, st.Post
	if st.Op.Kind == OpSched {
		seen := map[string]bool{}
		for _, b := range newBindings(st) {
			if seen[b.App] {
				continue
			}
			seen[b.App] = true
			app := pre.Apps[b.App]
			if app == nil {
				continue
			}
			if b.A.ReleaseKey != "" && !b.A.Placeholder {
				continue
			}
			e.obs("c11.bindings", 1)
			if app.State == "Running" {
				continue
			}
			for _, q := range pathOf(pre, app.Queue) {
				if q.MaxApps == 0 {
					continue
				}
				tracked := false
				for _, x := range q.Allocating {
					if x == b.App {
						tracked = true
					}
				}
				e.obs("c11.gated_first_allocations", 1)
				if tracked {
					continue
				}
				if q.Running+uint64(len(q.Allocating))+1 > q.MaxApps {
					ctx := ""
					if app.State == "Completing" {
						ctx = "/restarted-from-completing"
					}
					e.violate("C11", "admitted-beyond-limit", ctx, fmt.Sprintf("application %s (%s) got its first allocation %s while queue %s reports running %d + allocating %d with maximum %d", b.App, app.State, b.Key, q.Path, q.Running, len(q.Allocating), q.MaxApps))
				}
			}
		}
	}
	// quiescent invariants
	runningBelow := map[string]uint64{}
	liveBelow := map[string]map[string]bool{}
	appsBelow := map[string]int{}
	for id, a := range post.Apps {
		for _, q := range pathOf(post, a.Queue) {
			if liveBelow[q.Path] == nil {
				liveBelow[q.Path] = map[string]bool{}
			}
			liveBelow[q.Path][id] = true
			appsBelow[q.Path]++
			if a.State == "Running" {
				runningBelow[q.Path]++
			}
		}
	}
	for path, q := range post.Queues {
		if q.MaxApps > 0 && q.Running > q.MaxApps {
			// a lowered maximum cannot stop running applications: only a step that takes the count above an unchanged maximum is judged
			if pq := pre.Queues[path]; pq == nil || (pq.MaxApps == q.MaxApps && pq.Running <= pq.MaxApps) {
				e.violate("C11", "running-above-max", "", fmt.Sprintf("queue %s reports %d running applications, maximum %d", path, q.Running, q.MaxApps))
			}
		}
		if q.Running > runningBelow[path] {
			e.violate("C11", "running-count-high", "", fmt.Sprintf("queue %s reports %d running applications, %d applications below it are Running", path, q.Running, runningBelow[path]))
		}
		for _, id := range q.Allocating {
			if !liveBelow[path][id] {
				e.violate("C11", "allocating-stale", "", fmt.Sprintf("queue %s reports %s as allocating but it is not a live application of its subtree", path, id))
			}
		}
		if appsBelow[path] == 0 && (q.Running != 0 || len(q.Allocating) != 0) {
			e.violate("C11", "counters-nonzero-empty-queue", "", fmt.Sprintf("queue %s is empty but reports running %d allocating %v", path, q.Running, q.Allocating))
		}
		if q.MaxApps > 0 {
			e.obs("c11.limited_queue_checks", 1)
		}
	}
}
