package det

import (
	"fmt"
	"sort"
	"strings"

	"verifharness/res"
	"verifharness/world"
)

func (e *Engine) obs(k string, n int64) { e.Obs[k] += n }

// worldChanged is a cheap structural comparison used to stop scheduling loops early.
func worldChanged(a, b *world.World) bool {
	if a == nil || b == nil {
		return true
	}
	if a.NAllocs != b.NAllocs || a.NResv != b.NResv || a.NPH != b.NPH || len(a.Apps) != len(b.Apps) {
		return true
	}
	for id, x := range a.Apps {
		y, ok := b.Apps[id]
		if !ok || x.State != y.State || len(x.Asks) != len(y.Asks) || len(x.Allocs) != len(y.Allocs) || len(x.Resvs) != len(y.Resvs) || !res.Equal(x.Pending, y.Pending) {
			return true
		}
		for k, ax := range x.Asks {
			ay, ok := y.Asks[k]
			if !ok || ax.Allocated != ay.Allocated || ax.Released != ay.Released || ax.Preempted != ay.Preempted || ax.Triggered != ay.Triggered {
				return true
			}
		}
	}
	return false
}

func pathOf(w *world.World, leaf string) []*world.Queue {
	var out []*world.Queue
	for p := leaf; p != ""; {
		q := w.Queues[p]
		if q == nil {
			break
		}
		out = append(out, q)
		p = q.Parent
	}
	return out
}

func sumNode(n *world.Node) (alloc, occ res.R) {
	alloc, occ = res.R{}, res.R{}
	for _, a := range n.Allocs {
		if a.Foreign {
			occ.AddTo(a.Res)
		} else {
			alloc.AddTo(a.Res)
		}
	}
	return alloc.Pruned(), occ.Pruned()
}

// Binding is a non-foreign allocation that appeared on a node in this step.
type Binding struct {
	Key, App, Node string
	A              *world.Alloc // post view of the allocation on the node
}

func newBindings(st *Step) []Binding {
	var out []Binding
	for id, n := range st.Post.Nodes {
		pre := st.Pre.Nodes[id]
		for k, a := range n.Allocs {
			if a.Foreign {
				continue
			}
			if pre != nil {
				if _, ok := pre.Allocs[k]; ok {
					continue
				}
			}
			out = append(out, Binding{Key: k, App: a.App, Node: id, A: a})
		}
	}
	sort.Slice(out, func(i, j int) bool { return out[i].Key < out[j].Key })
	return out
}

var forcedKinds = map[string]bool{OpBound: true, OpBindAsk: true, OpUpdAsk: true, OpUpdNode: true, OpForeign: true, OpForeignUpd: true, OpEcho: true}

func (e *Engine) check(st *Step) {
	// protocol automaton first: it also maintains the shim's view used by the generator
	pv := e.V.Apply(st.Evs, true)
	for _, v := range pv {
		e.violate("C04", v.Rule, "", v.Text)
	}
	e.obs("steps", 1)
	e.checkC01(st)
	e.checkC02(st)
	e.checkC03(st)
	e.checkC04World(st)
	e.checkC05(st)
	e.checkC06(st)
	e.checkC07(st)
	e.checkC09(st)
	e.checkC10(st)
	e.checkC11(st)
	e.checkC16Step(st)
	for _, ev := range st.Evs {
		if ev.Dir == "recv" {
			e.obs("recv:"+ev.Kind, 1)
		}
	}
}

// ---------------------------------------------------------------------------------------------------------
// C01: the scheduler never over-commits a node
func (e *Engine) checkC01(st *Step) {
	w := st.Post
	if st.Op.Kind == OpSched {
		for _, b := range newBindings(st) {
			e.obs("c01.bindings", 1)
			n := st.Pre.Nodes[b.Node]
			if n == nil {
				e.violate("C01", "bind-unregistered-node", "", fmt.Sprintf("allocation %s bound on node %s which was not registered before the step", b.Key, b.Node))
				continue
			}
			var ask *world.Alloc
			if app := st.Pre.Apps[b.App]; app != nil {
				ask = app.Asks[b.Key]
			}
			if ask == nil {
				// conservation (C03) reports it; nothing to compare against here
				continue
			}
			if !n.Schedulable {
				kind := "/normal-ask"
				if ask.ReqNode != "" {
					kind = "/required-node-ask"
				}
				e.violate("C01", "bind-unschedulable-node", kind, fmt.Sprintf("allocation %s (required node %q) bound on node %s which was not schedulable", b.Key, ask.ReqNode, b.Node))
			}
			used, occ := sumNode(n)
			avail := res.Sub(res.Sub(n.Cap, used), occ)
			if !res.LessEq(res.R{}, avail) {
				e.obs("c01.bindings_on_overcommitted", 1)
			}
			half := false
			for k, v := range n.Cap {
				if v > 0 && (used[k]+occ[k])*2 >= v {
					half = true
				}
			}
			if half {
				e.obs("c01.bindings_on_half_full", 1)
			}
			if !ask.Res.FitsIn(avail) {
				e.violate("C01", "bind-does-not-fit", "", fmt.Sprintf("allocation %s %s bound on node %s: capacity %s allocated %s occupied %s", b.Key, ask.Res, b.Node, n.Cap, used, occ))
			}
			if ask.ReqNode != "" && ask.ReqNode != b.Node {
				e.violate("C01", "bind-not-required-node", "", fmt.Sprintf("allocation %s requires node %s, bound on %s", b.Key, ask.ReqNode, b.Node))
			}
			if ask.ReqNode != "" {
				e.obs("c01.required_node_bindings", 1)
			}
			// reservation rule: the node was and still is reserved for a different ask
			if len(n.Resvs) > 0 {
				mine := false
				for _, r := range n.Resvs {
					if r.Key == b.Key {
						mine = true
					}
				}
				if mine {
					e.obs("c01.bindings_on_own_reservation", 1)
				} else if pn := w.Nodes[b.Node]; pn != nil {
					for _, r := range n.Resvs {
						for _, r2 := range pn.Resvs {
							if r.Key == r2.Key && r.Key != b.Key {
								e.violate("C01", "bind-on-node-reserved-for-other", "", fmt.Sprintf("allocation %s bound on node %s which was and stays reserved for %s", b.Key, b.Node, r.Key))
							}
						}
					}
				}
			}
			// predicate: the last answer for (key,node,allocate=true) in this step must be an accept
			seen, okLast := false, false
			for _, p := range st.Preds {
				if p.Key == b.Key && p.Node == b.Node && p.Allocate {
					seen, okLast = true, p.OK
				}
			}
			if !seen {
				e.violate("C01", "bind-without-predicate", "", fmt.Sprintf("allocation %s bound on node %s without asking the shim's predicate", b.Key, b.Node))
			} else if !okLast {
				e.violate("C01", "bind-predicate-denied", "", fmt.Sprintf("allocation %s bound on node %s although the predicate denied it", b.Key, b.Node))
			}
		}
		for _, p := range st.Preds {
			if !p.OK {
				e.obs("c01.predicate_denials", 1)
			}
		}
	}
	// placeholder replacement on the placeholder's own node: the real allocation may not take more than the placeholder
	if (st.Op.Kind == OpConfirm || st.Op.Kind == OpDupConfirm || st.Op.Kind == OpReconfirm) && st.Op.Term == "PLACEHOLDER_REPLACED" {
		for id, n := range w.Nodes {
			if pn := st.Pre.Nodes[id]; pn != nil && !res.LessEq(n.Allocated, pn.Allocated) {
				e.violate("C01", "replacement-grows-node", "", fmt.Sprintf("node %s allocated grew from %s to %s when the replacement of placeholder %s was confirmed (available now %s)", id, pn.Allocated, n.Allocated, st.Op.Key, n.Available))
			}
		}
	}
	// ledger at every quiescent point
	for id, n := range w.Nodes {
		e.obs("c01.ledger_checks", 1)
		used, occ := sumNode(n)
		if !res.Equal(used, n.Allocated) {
			e.violate("C01", "ledger-allocated", "", fmt.Sprintf("node %s reports allocated %s, sum of its allocations is %s", id, n.Allocated, used))
		}
		if !res.Equal(occ, n.Occupied) {
			e.violate("C01", "ledger-occupied", "", fmt.Sprintf("node %s reports occupied %s, sum of its foreign allocations is %s", id, n.Occupied, occ))
		}
		exp := res.Sub(res.Sub(n.Cap, n.Allocated), n.Occupied)
		if !res.Equal(exp, n.Available) {
			e.violate("C01", "ledger-available", "", fmt.Sprintf("node %s reports available %s, capacity %s - allocated %s - occupied %s = %s", id, n.Available, n.Cap, n.Allocated, n.Occupied, exp))
		}
		if n.Available.HasNegative() {
			pre := st.Pre.Nodes[id]
			wasNeg := pre != nil && pre.Available.HasNegative()
			if !wasNeg && !forcedKinds[st.Op.Kind] {
				e.violate("C01", "negative-available-unforced", "/"+st.Op.Kind, fmt.Sprintf("node %s available %s became negative in a step (%s) that is not an externally forced change", id, n.Available, st.Op.Kind))
			}
			if wasNeg && pre != nil {
				// it may not get worse through anything but a forced change
				for k, v := range n.Available {
					if v < 0 && v < pre.Available[k] && !forcedKinds[st.Op.Kind] {
						e.violate("C01", "negative-available-grew", "/"+st.Op.Kind, fmt.Sprintf("node %s available %s (was %s) got more negative in step %s", id, n.Available, pre.Available, st.Op.Kind))
					}
				}
			}
		}
	}
}

// ---------------------------------------------------------------------------------------------------------
// C02: scheduling never takes a queue above its maximum
var schedulingKinds = map[string]bool{OpSched: true, OpConfirm: true, OpDupConfirm: true, OpReconfirm: true, OpFirePH: true, OpFireState: true, OpCleanup: true, OpQuotaPre: true, OpDrain: true, OpUndrain: true}

func (e *Engine) checkC02(st *Step) {
	pre, post := st.Pre, st.Post
	if st.Op.Kind == OpSched {
		rootCap := res.R{}
		for _, n := range pre.Nodes {
			rootCap.AddTo(n.Cap)
		}
		for _, b := range newBindings(st) {
			app := pre.Apps[b.App]
			if app == nil {
				continue
			}
			ask := app.Asks[b.Key]
			if ask == nil {
				continue
			}
			if b.A.ReleaseKey != "" && !b.A.Placeholder {
				// real half of a cross-node swap: queue usage is not increased until the placeholder is gone
				continue
			}
			e.obs("c02.bindings", 1)
			bound := false
			for _, q := range pathOf(pre, app.Queue) {
				limit := q.Max
				if q.Parent == "" {
					limit = rootCap
					for k, v := range ask.Res {
						if v > 0 {
							if _, ok := rootCap[k]; !ok {
								e.violate("C02", "root-type-not-provided", "", fmt.Sprintf("allocation %s %s uses type %s no node provides", b.Key, ask.Res, k))
							}
						}
					}
				}
				if limit == nil {
					continue
				}
				for k, v := range ask.Res {
					if v <= 0 {
						continue
					}
					l, ok := limit[k]
					if !ok {
						continue
					}
					if q.Allocated[k]+v > l {
						e.violate("C02", "over-max", "", fmt.Sprintf("allocation %s %s takes queue %s to %d %s, maximum is %d (usage before %s)", b.Key, ask.Res, q.Path, q.Allocated[k]+v, k, l, q.Allocated))
					}
					if q.Allocated[k]+2*v > l {
						bound = true
					}
				}
			}
			if bound {
				e.obs("c02.bindings_near_limit", 1)
			}
		}
	}
	// generic: a non-forced step never increases a usage component that ends above its maximum
	if schedulingKinds[st.Op.Kind] {
		for path, q := range post.Queues {
			pq := pre.Queues[path]
			if pq == nil || q.Max == nil || q.Parent == "" {
				continue
			}
			for k, l := range q.Max {
				if pl, ok := pq.Max[k]; !ok || pl != l {
					continue
				}
				if q.Allocated[k] > l && q.Allocated[k] > pq.Allocated[k] {
					e.violate("C02", "usage-above-max-grew", "/"+st.Op.Kind, fmt.Sprintf("queue %s usage of %s went from %d to %d above maximum %d in step %s", path, k, pq.Allocated[k], q.Allocated[k], l, st.Op.Kind))
				}
			}
		}
	}
	// the effective limit of a queue is never looser than its parent's
	for path, q := range post.Queues {
		if q.Parent == "" || q.EffMax == nil {
			continue
		}
		p := post.Queues[q.Parent]
		if p == nil || p.EffMax == nil {
			continue
		}
		e.obs("c02.effmax_checks", 1)
		for k, pv := range p.EffMax {
			if cv, ok := q.EffMax[k]; ok && cv > pv {
				e.violate("C02", "child-limit-looser", "", fmt.Sprintf("queue %s effective maximum %s looser than parent %s", path, q.EffMax, p.EffMax))
			}
			if _, ok := q.EffMax[k]; !ok {
				e.violate("C02", "child-limit-looser", "/missing-type", fmt.Sprintf("queue %s effective maximum %s lacks type %s limited by parent %s", path, q.EffMax, k, p.EffMax))
			}
		}
	}
}

// ---------------------------------------------------------------------------------------------------------
// C03: conservation
func isRealHalf(w *world.World, a *world.Alloc) bool {
	if a.Placeholder || a.Foreign || a.ReleaseKey == "" {
		return false
	}
	app := w.Apps[a.App]
	if app == nil {
		return false
	}
	if _, listed := app.Allocs[a.Key]; listed {
		return false
	}
	ask := app.Asks[a.Key]
	if ask == nil || !ask.Allocated {
		return false
	}
	// the placeholder half must still be there, released and pointing back
	ph := app.Allocs[a.ReleaseKey]
	return ph != nil && ph.Placeholder && ph.Released && ph.ReleaseKey == a.Key
}

func (e *Engine) checkC03(st *Step) {
	w := st.Post
	e.obs("c03.checks", 1)
	// observation only: node removals that hit a cross-node swap in flight (which half lived on the removed node)
	if st.Op != nil && st.Op.Kind == OpDecom && st.Pre != nil {
		if n := st.Pre.Nodes[st.Op.Node]; n != nil {
			for _, al := range n.Allocs {
				if isRealHalf(st.Pre, al) {
					e.obs("c03.decom_real_node_swap_in_flight", 1)
				}
				if al.Placeholder && al.Released && al.ReleaseKey != "" {
					if app := st.Pre.Apps[al.App]; app != nil {
						if ask := app.Asks[al.ReleaseKey]; ask != nil && ask.Allocated && ask.Node != "" && ask.Node != st.Op.Node {
							e.obs("c03.decom_placeholder_node_swap_in_flight", 1)
						}
					}
				}
			}
		}
	}
	neg := func(what string, r res.R) {
		if r.HasNegative() {
			e.violate("C03", "negative", "/"+strings.SplitN(what, " ", 2)[0], fmt.Sprintf("%s is negative: %s", what, r))
		}
	}
	// applications
	for id, a := range w.Apps {
		sumA, sumP, sumPend := res.R{}, res.R{}, res.R{}
		for _, al := range a.Allocs {
			if al.Placeholder {
				sumP.AddTo(al.Res)
			} else {
				sumA.AddTo(al.Res)
			}
		}
		for _, as := range a.Asks {
			if !as.Allocated {
				sumPend.AddTo(as.Res)
			}
		}
		if !res.Equal(sumA, a.Allocated) {
			e.violate("C03", "app-allocated", "", fmt.Sprintf("application %s allocated %s, sum of its allocations %s", id, a.Allocated, sumA.Pruned()))
		}
		if !res.Equal(sumP, a.PHAlloc) {
			e.violate("C03", "app-placeholder", "", fmt.Sprintf("application %s placeholder total %s, sum of its placeholder allocations %s", id, a.PHAlloc, sumP.Pruned()))
		}
		if !res.Equal(sumPend, a.Pending) {
			e.violate("C03", "app-pending", "", fmt.Sprintf("application %s pending %s, sum of its unallocated asks %s", id, a.Pending, sumPend.Pruned()))
		}
		neg("application "+id+" allocated", a.Allocated)
		neg("application "+id+" pending", a.Pending)
		neg("application "+id+" placeholder", a.PHAlloc)
		// every allocation the application lists is on the node it names
		for k, al := range a.Allocs {
			n := w.Nodes[al.Node]
			if n == nil {
				e.violate("C03", "app-alloc-node-missing", "", fmt.Sprintf("application %s lists allocation %s on node %s which is not registered", id, k, al.Node))
				continue
			}
			if _, ok := n.Allocs[k]; !ok {
				e.violate("C03", "app-alloc-not-on-node", "", fmt.Sprintf("application %s lists allocation %s on node %s, the node does not have it", id, k, al.Node))
			}
		}
	}
	// nodes: every allocation belongs to a live application that lists it
	nodeTotal := res.R{}
	halves := res.R{}
	for id, n := range w.Nodes {
		nodeTotal.AddTo(n.Allocated)
		for k, al := range n.Allocs {
			if al.Foreign {
				continue
			}
			app := w.Apps[al.App]
			if app == nil {
				e.violate("C03", "node-alloc-orphan", "/no-app", fmt.Sprintf("node %s has allocation %s of application %s which is not live", id, k, al.App))
				continue
			}
			if _, ok := app.Allocs[k]; !ok {
				if isRealHalf(w, al) {
					halves.AddTo(al.Res)
					e.obs("c03.inflight_cross_node_swaps", 1)
					continue
				}
				e.violate("C03", "node-alloc-orphan", "/not-listed", fmt.Sprintf("node %s has allocation %s, application %s (%s) does not list it", id, k, al.App, app.State))
			}
		}
		neg("node "+id+" allocated", n.Allocated)
		neg("node "+id+" occupied", n.Occupied)
	}
	// queues
	for path, q := range w.Queues {
		neg("queue "+path+" allocated", q.Allocated)
		neg("queue "+path+" pending", q.Pending)
		neg("queue "+path+" preempting", q.Preempting)
		if q.Leaf {
			sumA, sumPend := res.R{}, res.R{}
			for _, id := range q.Apps {
				a := w.Apps[id]
				if a == nil {
					e.violate("C03", "queue-app-not-live", "", fmt.Sprintf("queue %s lists application %s which is not live in the partition", path, id))
					continue
				}
				sumA.AddTo(a.Allocated)
				sumA.AddTo(a.PHAlloc)
				sumPend.AddTo(a.Pending)
			}
			if !res.Equal(sumA, q.Allocated) {
				e.violate("C03", "leaf-allocated", "", fmt.Sprintf("leaf queue %s allocated %s, sum over its applications %s", path, q.Allocated, sumA.Pruned()))
			}
			if !res.Equal(sumPend, q.Pending) {
				e.violate("C03", "leaf-pending", "", fmt.Sprintf("leaf queue %s pending %s, sum over its applications %s", path, q.Pending, sumPend.Pruned()))
			}
		} else {
			sumA, sumPend, sumPre := res.R{}, res.R{}, res.R{}
			for _, c := range q.Children {
				cq := w.Queues[c]
				if cq == nil {
					continue
				}
				sumA.AddTo(cq.Allocated)
				sumPend.AddTo(cq.Pending)
				sumPre.AddTo(cq.Preempting)
			}
			if !res.Equal(sumA, q.Allocated) {
				e.violate("C03", "parent-allocated", "", fmt.Sprintf("parent queue %s allocated %s, sum over its children %s", path, q.Allocated, sumA.Pruned()))
			}
			if !res.Equal(sumPend, q.Pending) {
				e.violate("C03", "parent-pending", "", fmt.Sprintf("parent queue %s pending %s, sum over its children %s", path, q.Pending, sumPend.Pruned()))
			}
			if !res.Equal(sumPre, q.Preempting) {
				e.violate("C03", "parent-preempting", "", fmt.Sprintf("parent queue %s preempting %s, sum over its children %s", path, q.Preempting, sumPre.Pruned()))
			}
		}
	}
	// live applications are in the queue they name
	for id, a := range w.Apps {
		q := w.Queues[a.Queue]
		if q == nil {
			if a.HasQueue {
				e.violate("C03", "app-queue-missing", "", fmt.Sprintf("application %s (%s) is in queue %s which does not exist", id, a.State, a.Queue))
			}
			continue
		}
		found := false
		for _, x := range q.Apps {
			if x == id {
				found = true
			}
		}
		if !found && a.HasQueue {
			e.violate("C03", "app-not-in-queue", "", fmt.Sprintf("application %s (%s) names queue %s which does not list it", id, a.State, a.Queue))
		}
	}
	if root := w.Queues["root"]; root != nil {
		exp := res.Sub(nodeTotal, halves)
		if !res.Equal(exp, root.Allocated) {
			e.violate("C03", "root-vs-nodes", "", fmt.Sprintf("root allocated %s, sum of node allocated %s minus in-flight real halves %s", root.Allocated, nodeTotal.Pruned(), halves.Pruned()))
		}
	}
}

// C04 world part: a rejected item leaves no trace in the accounting
func (e *Engine) checkC04World(st *Step) {
	w := st.Post
	for id, a := range e.V.Apps {
		if a.Status != "rejected" {
			continue
		}
		if x, ok := w.Apps[id]; ok {
			e.violate("C04", "rejected-app-live", "", fmt.Sprintf("rejected application %s is live in the partition in state %s", id, x.State))
		}
		for path, q := range w.Queues {
			for _, x := range q.Apps {
				if x == id {
					e.violate("C04", "rejected-app-in-queue", "", fmt.Sprintf("rejected application %s is listed by queue %s", id, path))
				}
			}
		}
	}
	for id, n := range e.V.Nodes {
		if n.Status == "rejected" {
			if _, ok := w.Nodes[id]; ok {
				// a duplicate node id is rejected while the first registration lives on: handled through dupNode, so this is a real trace
				e.violate("C04", "rejected-node-registered", "", fmt.Sprintf("rejected node %s is registered", id))
			}
		}
	}
	for k, vk := range e.V.Keys {
		if vk.Phase != PhRejected {
			continue
		}
		if a := w.Apps[vk.App]; a != nil {
			if _, ok := a.Asks[k]; ok {
				e.violate("C04", "rejected-ask-present", "", fmt.Sprintf("rejected ask %s is present in application %s", k, vk.App))
			}
		}
	}
}
