package det

import (
	"crypto/sha256"
	"encoding/hex"
	"fmt"
	"os"
	"sort"
	"strings"
	"time"

	"github.com/apache/yunikorn-core/pkg/scheduler/objects"
	siCommon "github.com/apache/yunikorn-scheduler-interface/lib/go/common"

	"verifharness/res"
	"verifharness/shim"
	"verifharness/world"
)

// quiescentForShim: the shim's view and the core's view coincide (no unconfirmed release announcements, no swap in flight).
func (e *Engine) quiescentForShim() bool {
	if len(e.C.S.Confirms()) > 0 {
		return false
	}
	for _, k := range e.V.Keys {
		if k.Phase == PhReleasing || k.Phase == PhStopping || (k.Phase == PhBound && k.EchoPending) {
			return false
		}
	}
	for _, a := range e.Cur.Apps {
		for _, as := range a.Asks {
			if as.ReleaseKey != "" {
				return false
			}
			if as.Allocated && !as.Placeholder {
				if _, listed := a.Allocs[as.Key]; !listed {
					return false // allocated but not (yet) announced / confirmed
				}
			}
		}
		for _, al := range a.Allocs {
			if al.Released || al.Preempted {
				return false
			}
		}
	}
	return true
}

type totals struct {
	nodeAlloc, nodeOcc       map[string]res.R
	appAlloc, appPH, appPend map[string]res.R
	appQueue                 map[string]string
	queueAlloc, queuePend    map[string]res.R
	userRoot                 map[string]res.R
}

func totalsOf(w *world.World) *totals {
	t := &totals{nodeAlloc: map[string]res.R{}, nodeOcc: map[string]res.R{}, appAlloc: map[string]res.R{}, appPH: map[string]res.R{}, appPend: map[string]res.R{},
		appQueue: map[string]string{}, queueAlloc: map[string]res.R{}, queuePend: map[string]res.R{}, userRoot: map[string]res.R{}}
	for id, n := range w.Nodes {
		t.nodeAlloc[id], t.nodeOcc[id] = n.Allocated, n.Occupied
	}
	for id, a := range w.Apps {
		t.appAlloc[id], t.appPH[id], t.appPend[id], t.appQueue[id] = a.Allocated, a.PHAlloc, a.Pending, a.Queue
	}
	for p, q := range w.Queues {
		t.queueAlloc[p], t.queuePend[p] = q.Allocated, q.Pending
	}
	for u, tr := range w.Users {
		if qt := tr.Queues["root"]; qt != nil {
			t.userRoot[u] = qt.Usage
		}
	}
	return t
}

// RunRecoveryCase: run a history to a crash point, stop the core, start a new one and replay the shim's view.
func RunRecoveryCase(seed uint64, replayDir string, cmdLog *os.File) *CaseResult {
	out := &CaseResult{Prop: "C12", Seed: seed, Obs: map[string]int64{}}
	r := NewRng(seed)
	prof := ProfileFor("C12")
	m := GenConfig(NewRng(Mix(seed, 1)), prof.Cfg)
	c, err := shim.Start("rm:1", m.YAML, true, nil)
	if err != nil {
		out.Inconclusive = "core did not start: " + err.Error()
		return out
	}
	objects.VerifSetTimings(0, -1, 24*time.Hour, 24*time.Hour)
	e := NewEngine(c, m.YAML)
	e.CheckProp = "C12"
	e.Cmd = cmdLog
	if !e.Init() {
		c.Stop()
		out.Inconclusive = e.Inconclusive
		return out
	}
	g := NewGen(r, m, e, prof)
	for i, n := 0, r.Range(1, prof.MaxNodes); i < n; i++ {
		if op := g.make(OpAddNode); op != nil {
			e.Do(op)
		}
	}
	for i, n := 0, r.Range(2, 4); i < n; i++ {
		if op := g.make(OpAddApp); op != nil {
			e.Do(op)
		}
	}
	steps := r.Range(prof.Steps[0], prof.Steps[1])
	e.CheckProp = "none"
	for i := 0; i < steps && e.Inconclusive == ""; i++ {
		op := g.Next()
		if op.Kind == OpReload {
			e.Do(op)
			e.afterReload(g, true)
			continue
		}
		e.Do(op)
	}
	// violations of other properties before the crash are not C12's business; a broken state is not a crash point
	broken := ""
	for _, v := range e.Viol {
		if v.Prop == "C03" || strings.HasPrefix(v.Rule, "ledger") || v.Prop == "C05" {
			broken = v.Signature // the books of the old core are already wrong: not a crash point with defined totals
			break
		}
	}
	if broken != "" || e.Inconclusive != "" {
		c.Stop()
		out.Inconclusive = "history before the crash point did not end clean: " + e.Inconclusive + broken
		return out
	}
	e.Viol = nil
	// move to a protocol-quiescent point: deliver what is queued, let scheduling finish
	for i := 0; i < 40 && !e.quiescentForShim() && e.Inconclusive == ""; i++ {
		if len(c.S.Confirms()) > 0 {
			e.Do(&Op{Kind: OpConfirm, Idx: 0})
		} else {
			e.Do(&Op{Kind: OpSched, N: 1})
		}
	}
	if !e.quiescentForShim() || e.Inconclusive != "" {
		c.Stop()
		out.Inconclusive = "no protocol-quiescent crash point reached"
		return out
	}
	old := totalsOf(e.Cur)
	oldWorld := e.Cur
	view := e.V
	addOps := map[string]*Op{}
	for _, o := range e.Ops {
		if o.Kind == OpAddApp {
			addOps[o.App] = o
		}
	}
	cfg := e.ConfigYAML
	// lower quotas before the crash in a third of the cases: replay must be accepted regardless
	c.Stop()
	out.Obs["c12.crash_points"]++
	out.Obs["c12.old_apps"] = int64(len(oldWorld.Apps))

	// ---- new core, replay from the shim's view only ----
	c2, err := shim.Start("rm:1", cfg, true, nil)
	if err != nil {
		out.Inconclusive = "second core did not start: " + err.Error()
		return out
	}
	defer c2.Stop()
	objects.VerifSetTimings(0, -1, 24*time.Hour, 24*time.Hour)
	e2 := NewEngine(c2, cfg)
	e2.CheckProp = "C12"
	e2.Cmd = cmdLog
	if !e2.Init() {
		out.Inconclusive = e2.Inconclusive
		return out
	}
	var nodeOps, appOps, allocOps []*Op
	for _, id := range sortedKeys(view.Nodes) {
		n := view.Nodes[id]
		if n.Status != "accepted" {
			continue
		}
		kind := OpAddNode
		if n.Draining {
			kind = OpAddNodeDr
		}
		nodeOps = append(nodeOps, &Op{Kind: kind, Node: id, Res: n.Cap.Clone()})
	}
	liveApp := map[string]bool{}
	for _, id := range sortedKeys(view.Apps) {
		a := view.Apps[id]
		if a.Status != "accepted" || a.Terminated {
			continue
		}
		orig := addOps[id]
		if orig == nil {
			continue
		}
		// the shim only replays applications it still has pods for
		has := false
		for _, k := range view.Keys {
			if k.App == id && (k.Phase == PhBound || k.Phase == PhPending) {
				has = true
			}
		}
		if !has {
			continue
		}
		liveApp[id] = true
		tags := map[string]string{siCommon.AppTagCreateForce: "true"}
		for k, v := range orig.Tags {
			tags[k] = v
		}
		q := orig.Queue
		if oa := oldWorld.Apps[id]; oa != nil {
			q = oa.Queue // the shim records the queue the application was placed in
		}
		appOps = append(appOps, &Op{Kind: OpAddApp, App: id, Queue: q, User: orig.User, Groups: orig.Groups, Tags: tags, PHAsk: orig.PHAsk, GangStyle: orig.GangStyle})
	}
	for _, k := range sortedKeys(view.Keys) {
		vk := view.Keys[k]
		switch {
		case vk.Foreign && vk.Phase == PhBound:
			if n := view.Nodes[vk.Node]; n != nil && n.Status == "accepted" {
				allocOps = append(allocOps, &Op{Kind: OpForeign, Key: k, Node: vk.Node, Res: vk.Res.Clone()})
			}
		case vk.Phase == PhBound && liveApp[vk.App]:
			allocOps = append(allocOps, &Op{Kind: OpBound, App: vk.App, Key: k, Node: vk.Node, Res: vk.Res.Clone(), Placeholder: vk.PH, TaskGroup: vk.TG, Prio: vk.Prio, ReqNode: vk.ReqNode})
		case vk.Phase == PhPending && liveApp[vk.App]:
			allocOps = append(allocOps, &Op{Kind: OpAsk, App: vk.App, Key: k, Res: vk.Res.Clone(), Placeholder: vk.PH, TaskGroup: vk.TG, Prio: vk.Prio, ReqNode: vk.ReqNode})
		}
	}
	// seeded order, constrained only by "node and application before their allocations"
	shuffle := func(xs []*Op) {
		for i := len(xs) - 1; i > 0; i-- {
			j := r.Intn(i + 1)
			xs[i], xs[j] = xs[j], xs[i]
		}
	}
	shuffle(nodeOps)
	shuffle(appOps)
	shuffle(allocOps)
	var replay []*Op
	if r.Chance(500) {
		replay = append(append(append(replay, nodeOps...), appOps...), allocOps...)
	} else {
		replay = append(append(append(replay, appOps...), nodeOps...), allocOps...)
	}
	out.Obs["c12.replayed_nodes"] = int64(len(nodeOps))
	out.Obs["c12.replayed_apps"] = int64(len(appOps))
	out.Obs["c12.replayed_allocations"] = int64(len(allocOps))
	bad := func(rule, sig, text string) {
		e2.Viol = append(e2.Viol, Violation{Prop: "C12", Rule: rule, Signature: "C12/" + rule + sig, Text: text, Step: e2.StepN})
	}
	for _, op := range replay {
		t0 := c2.S.TraceLen()
		e2.Do(op)
		if e2.Inconclusive != "" {
			out.Inconclusive = e2.Inconclusive
			return out
		}
		for _, ev := range c2.S.TraceFrom(t0) {
			if ev.Dir == "recv" && (ev.Kind == "rejectedApp" || ev.Kind == "rejectedNode" || ev.Kind == "rejectedAlloc") {
				bad("replayed-item-rejected", "/"+op.Kind, fmt.Sprintf("the new core rejected %s during recovery: %s", op.String(), ev.Reason))
			}
		}
	}
	// other properties' oracles ran on the replay steps too: only C12's own verdicts count here, but an accounting
	// violation during the replay is a recovery failure
	for _, v := range e2.Viol {
		if v.Prop == "C03" || v.Prop == "C01" {
			bad("accounting-broken-during-recovery", "/"+v.Rule, v.Text)
			break
		}
	}
	nw := totalsOf(e2.Cur)
	cmp := func(kind string, o, n map[string]res.R, only map[string]bool) {
		for _, id := range sortedKeys(o) {
			if only != nil && !only[id] {
				continue
			}
			nv, ok := n[id]
			if !ok {
				if !o[id].IsZero() {
					bad("totals-differ", "/"+kind+"-missing", fmt.Sprintf("%s %s had %s in the old core and does not exist in the new one", kind, id, o[id]))
				}
				continue
			}
			out.Obs["c12.totals_compared"]++
			if !res.Equal(o[id], nv) {
				bad("totals-differ", "/"+kind, fmt.Sprintf("%s %s: old core %s, new core %s", kind, id, o[id], nv))
			}
		}
	}
	cmp("node-allocated", old.nodeAlloc, nw.nodeAlloc, nil)
	cmp("node-occupied", old.nodeOcc, nw.nodeOcc, nil)
	cmp("app-allocated", old.appAlloc, nw.appAlloc, liveApp)
	cmp("app-placeholder", old.appPH, nw.appPH, liveApp)
	cmp("app-pending", old.appPend, nw.appPend, liveApp)
	// queues: only when every application of the old queue was replayed into the same queue
	sameQueue := map[string]bool{}
	for p := range old.queueAlloc {
		sameQueue[p] = true
	}
	for id, q := range old.appQueue {
		moved := !liveApp[id] && !(old.appAlloc[id].IsZero() && old.appPH[id].IsZero() && old.appPend[id].IsZero())
		if nq, ok := nw.appQueue[id]; (ok && nq != q) || moved {
			for p := q; p != ""; {
				sameQueue[p] = false
				i := strings.LastIndex(p, ".")
				if i < 0 {
					break
				}
				p = p[:i]
			}
			if ok {
				for p := nw.appQueue[id]; p != ""; {
					sameQueue[p] = false
					i := strings.LastIndex(p, ".")
					if i < 0 {
						break
					}
					p = p[:i]
				}
			}
		}
	}
	cmp("queue-allocated", old.queueAlloc, nw.queueAlloc, sameQueue)
	cmp("queue-pending", old.queuePend, nw.queuePend, sameQueue)
	users := map[string]bool{}
	for u := range old.userRoot {
		users[u] = true
	}
	cmp("user-usage", old.userRoot, nw.userRoot, users)
	// scheduling afterwards still respects capacity, quota and accounting
	if len(e2.Viol) == 0 {
		e2.CheckProp = ""
		g2 := NewGen(r, m, e2, prof)
		g2.nodeN, g2.appN, g2.keyN, g2.forN = g.nodeN+100, g.appN+100, g.keyN+1000, g.forN+100
		for i := 0; i < 30 && e2.Inconclusive == "" && len(e2.Viol) == 0; i++ {
			op := g2.Next()
			if op.Kind == OpReload {
				continue
			}
			e2.Do(op)
		}
		for _, v := range e2.Viol {
			if v.Prop == "C01" || v.Prop == "C02" || v.Prop == "C03" {
				bad("post-recovery-scheduling", "/"+v.Prop+"/"+v.Rule, v.Text)
			}
		}
		out.Obs["c12.post_recovery_steps"] += 30
	}
	var mine []Violation
	for _, v := range e2.Viol {
		if v.Prop == "C12" {
			mine = append(mine, v)
		}
	}
	out.Violations = mine
	out.Steps = e.StepN + e2.StepN
	for k, v := range e.Obs {
		if strings.HasPrefix(k, "recv:") || k == "steps" {
			out.Obs["old."+k] += v
		}
	}
	h := sha256.New()
	h.Write([]byte(cfg))
	var ops []string
	for _, o := range e.Ops {
		h.Write([]byte(o.String()))
	}
	for _, o := range replay {
		s := o.String()
		h.Write([]byte(s))
		ops = append(ops, "replay: "+s)
	}
	sort.Strings(ops[:0])
	out.Hash = hex.EncodeToString(h.Sum(nil)[:12])
	hasPHorForeign := false
	pend := 0
	for _, o := range allocOps {
		if o.Placeholder || o.Kind == OpForeign {
			hasPHorForeign = true
		}
		if o.Kind == OpAsk {
			pend++
		}
	}
	out.Nontrivial = len(appOps) >= 2 && len(allocOps) >= 2 && (hasPHorForeign || pend > 0)
	if len(ops) > 50 {
		ops = ops[:50]
	}
	out.Sample = &Sample{Seed: fmt.Sprintf("%#x", seed), Config: cfg, Ops: ops}
	if len(mine) > 0 && replayDir != "" {
		rf := &ReplayFile{Property: "C12", Engine: "det-recovery", CaseSeed: seed, Config: cfg, Ops: append(append([]*Op{}, e.Ops...), replay...), Violations: mine, Before: oldWorld, After: e2.Cur}
		out.Replay = writeReplay(replayDir, "C12", seed, rf)
	}
	return out
}
