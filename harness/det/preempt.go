package det

import (
	"fmt"
	"github.com/apache/yunikorn-core/pkg/common/configs"
	"go.yaml.in/yaml/v3"
	"strconv"
	"strings"
	"time"

	"verifharness/res"
	"verifharness/world"
)

func parseDur(s string) time.Duration {
	d, err := time.ParseDuration(s)
	if err != nil {
		return 0
	}
	return d
}

func isAncestorOrSelf(anc, path string) bool {
	return anc == path || strings.HasPrefix(path, anc+".")
}

// fenceRoot: nearest ancestor-or-self of the leaf with preemption.policy=fence, else root.
func fenceRoot(w *world.World, leaf string) string {
	for _, q := range pathOf(w, leaf) {
		if q.PreemptFence {
			return q.Path
		}
	}
	return "root"
}

// prioritiesPlain: no queue on the path configures a priority offset or a priority fence.
func prioritiesPlain(w *world.World, leaf string) bool {
	for _, q := range pathOf(w, leaf) {
		if q.PrioOffset != 0 || q.PrioFence {
			return false
		}
	}
	return true
}

// relativePriority evaluates the priority calculus for a victim leaf: the value of the ask at the deepest common
// ancestor of both leaves (offsets added upwards from the asker's leaf, a priority fence resets the value to its
// offset), then downwards to the victim's leaf (offsets subtracted; a priority-fenced queue makes the subtree fully
// eligible when its offset does not exceed the value, and blocks it otherwise).
func relativePriority(w *world.World, askLeaf, victimLeaf string, prio int64) (rel int64, fenced bool, blocked string, ok bool) {
	up := pathOf(w, askLeaf) // leaf first
	cur := prio
	at := map[string]int64{}
	for _, q := range up {
		if q.PrioFence {
			cur = int64(q.PrioOffset)
		} else {
			cur += int64(q.PrioOffset)
		}
		at[q.Path] = cur
	}
	down := pathOf(w, victimLeaf) // leaf first
	// deepest common ancestor
	ca := -1
	for i, q := range down {
		if _, on := at[q.Path]; on {
			ca = i
			break
		}
	}
	if ca <= 0 {
		return 0, false, "", false
	}
	rel = at[down[ca].Path]
	for i := ca - 1; i >= 0; i-- {
		q := down[i]
		if q.PrioFence {
			if int64(q.PrioOffset) > rel {
				return rel, fenced, q.Path, true
			}
			fenced = true
		} else {
			rel -= int64(q.PrioOffset)
		}
	}
	return rel, fenced, "", true
}

// checkC07 / checkC08: preemption victims announced in this step, judged on the pre-step world.
func (e *Engine) checkC07(st *Step) {
	pre, post := st.Pre, st.Post
	var victims []*world.Alloc
	victimApp := map[string]string{}
	for _, ev := range st.Evs {
		if ev.Dir != "recv" || ev.Kind != "released" || ev.Term != "PREEMPTED_BY_SCHEDULER" {
			continue
		}
		e.Hist.Preempted[ev.Key]++
		if e.Hist.Preempted[ev.Key] > 1 {
			e.violate("C07", "victim-announced-twice", "", fmt.Sprintf("allocation %s was announced as preempted %d times", ev.Key, e.Hist.Preempted[ev.Key]))
		}
		app := pre.Apps[ev.App]
		var v *world.Alloc
		if app != nil {
			v = app.Allocs[ev.Key]
		}
		if v == nil {
			e.violate("C07", "victim-not-bound", "", fmt.Sprintf("allocation %s of %s announced as preempted is not a bound allocation", ev.Key, ev.App))
			continue
		}
		victims = append(victims, v)
		victimApp[v.Key] = ev.App
	}
	// bookkeeping (C08) at every quiescent point: preempting(q) = sum of live allocations below q flagged preempted
	e.checkPreemptingBooks(st)
	if len(victims) == 0 {
		// nothing announced: nothing may have been flagged
		if st.Op.Kind == OpSched || st.Op.Kind == OpQuotaPre {
			for id, a := range post.Apps {
				for k, al := range a.Allocs {
					if al.Preempted {
						if pa := pre.Apps[id]; pa != nil {
							if pal := pa.Allocs[k]; pal != nil && !pal.Preempted {
								e.violate("C08", "flagged-without-announcement", "", fmt.Sprintf("allocation %s was marked for preemption in step %s without being announced to the shim", k, st.Op.Kind))
							}
						}
					}
				}
			}
		}
		return
	}
	e.obs("c07.victims", int64(len(victims)))
	e.obs("c07.preemption_batches", 1)
	// the set of newly flagged allocations equals the announced set
	announced := map[string]bool{}
	for _, v := range victims {
		announced[v.Key] = true
	}
	for id, a := range post.Apps {
		for k, al := range a.Allocs {
			if pa := pre.Apps[id]; pa != nil {
				if pal := pa.Allocs[k]; pal != nil && !pal.Preempted && al.Preempted && !announced[k] {
					e.violate("C08", "flagged-not-announced", "", fmt.Sprintf("allocation %s was marked for preemption but not announced", k))
				}
			}
		}
	}
	// the asker: the ask whose "triggered preemption" flag flipped in this step
	var asker *world.Alloc
	var askerApp *world.App
	flipped := 0
	for id, a := range post.Apps {
		pa := pre.Apps[id]
		if pa == nil {
			continue
		}
		for k, as := range a.Asks {
			if pas := pa.Asks[k]; pas != nil && !pas.Triggered && as.Triggered {
				asker, askerApp = pas, pa
				flipped++
			}
		}
	}
	if flipped > 1 {
		// one scheduling cycle can preempt for a reserved required-node ask and then for a queue ask: which victim
		// belongs to which asker is not observable without reading message texts, so only the rules that do not
		// depend on the asker are judged for this batch
		e.obs("c07.batches_with_several_askers", 1)
		asker, askerApp = nil, nil
	}
	kind := "unknown"
	switch {
	case st.Op.Kind == OpQuotaPre:
		kind = "quota"
	case asker != nil && asker.ReqNode != "":
		kind = "required-node"
	case asker != nil:
		kind = "queue"
	}
	e.obs("c07.batches_"+kind, 1)
	for _, v := range victims {
		if !v.Allocated {
			e.violate("C07", "victim-not-bound", "/"+kind, fmt.Sprintf("victim %s is not bound", v.Key))
		}
		if v.Released {
			e.violate("C07", "victim-already-released", "/"+kind, fmt.Sprintf("victim %s was already released", v.Key))
		}
		if v.Preempted {
			e.violate("C07", "victim-already-preempted", "/"+kind, fmt.Sprintf("victim %s was already marked for preemption", v.Key))
		}
		if v.ReqNode != "" {
			e.violate("C07", "victim-requires-node", "/"+kind, fmt.Sprintf("victim %s requires node %s (daemon set style allocations are never preempted)", v.Key, v.ReqNode))
		}
	}
	switch kind {
	case "queue":
		e.checkQueuePreemption(st, asker, askerApp, victims, victimApp)
	case "required-node":
		for _, v := range victims {
			if v.Node != asker.ReqNode {
				e.violate("C07", "required-node-victim-elsewhere", "", fmt.Sprintf("victim %s is on node %s, the ask %s requires node %s", v.Key, v.Node, asker.Key, asker.ReqNode))
			}
			if v.Prio > asker.Prio {
				e.violate("C07", "required-node-victim-outranks", "", fmt.Sprintf("victim %s priority %d outranks the ask %s priority %d", v.Key, v.Prio, asker.Key, asker.Prio))
			}
		}
	case "quota":
		e.checkQuotaPreemption(st, victims, victimApp)
	}
}

func (e *Engine) checkQueuePreemption(st *Step, a *world.Alloc, app *world.App, victims []*world.Alloc, victimApp map[string]string) {
	pre, post := st.Pre, st.Post
	leaf := app.Queue
	if !a.AllowOther {
		e.violate("C07", "asker-may-not-preempt-others", "", fmt.Sprintf("ask %s does not allow preempting others", a.Key))
	}
	if lq := pre.Queues[leaf]; lq != nil {
		delay := parseDur(lq.PreemptDelay)
		age := time.Since(time.Unix(a.CreateUnix, 0))
		if delay-age > 10*time.Second { // wide margin: delays are 1s/2s (crossed by back-dating) or 1h (never crossed)
			e.violate("C07", "asker-too-young", "", fmt.Sprintf("ask %s is %s old, its queue %s has preemption delay %s", a.Key, age.Round(time.Second), leaf, delay))
		}
	}
	fence := fenceRoot(pre, leaf)
	plain := prioritiesPlain(pre, leaf)
	ineligibleKinds := 0
	for _, v := range victims {
		va := pre.Apps[victimApp[v.Key]]
		if va == nil {
			continue
		}
		vleaf := va.Queue
		if vleaf == leaf {
			e.violate("C07", "victim-in-askers-queue", "", fmt.Sprintf("victim %s lives in the asker's own leaf queue %s", v.Key, leaf))
		}
		if !isAncestorOrSelf(fence, vleaf) {
			e.violate("C07", "victim-outside-fence", "", fmt.Sprintf("victim %s in %s is outside the preemption fence %s of the asker's queue %s", v.Key, vleaf, fence, leaf))
		}
		if vq := pre.Queues[vleaf]; vq != nil && !vq.PreemptionEnabled {
			e.violate("C07", "victim-queue-preemption-disabled", "", fmt.Sprintf("victim %s lives in %s whose preemption policy is disabled", v.Key, vleaf))
		}
		if !v.Res.SharesType(a.Res) {
			e.violate("C07", "victim-shares-no-type", "", fmt.Sprintf("victim %s %s shares no resource type with the ask %s %s", v.Key, v.Res, a.Key, a.Res))
		}
		if plain && prioritiesPlain(pre, vleaf) {
			e.obs("c07.priority_judged_plain", 1)
			if v.Prio > a.Prio {
				e.violate("C07", "victim-outranks-asker", "", fmt.Sprintf("victim %s priority %d outranks the ask %s priority %d (no offsets or fences on either path)", v.Key, v.Prio, a.Key, a.Prio))
			}
		} else if rel, fenced, blocked, ok := relativePriority(pre, leaf, vleaf, int64(a.Prio)); ok {
			// the documented calculus: offsets are added going up from the asker's queue (a priority fence resets the
			// value to its offset), subtracted going down to the victim's queue; a priority-fenced queue on the
			// victim's side makes its whole subtree eligible iff its offset does not exceed the value reached there
			e.obs("c07.priority_judged_calculus", 1)
			if rel < -2147483648 || rel > 2147483647 {
				e.obs("c07.priority_rank_outside_int32", 1)
			}
			switch {
			case blocked != "":
				e.violate("C07", "victim-behind-priority-fence", "", fmt.Sprintf("victim %s lives below the priority fence %s whose offset is above the relative priority of the ask %s there", v.Key, blocked, a.Key))
			case !fenced && int64(v.Prio) > rel:
				e.violate("C07", "victim-outranks-asker", "/with-offsets", fmt.Sprintf("victim %s priority %d outranks the ask %s (priority %d, relative priority %d in %s) and no priority fence applies on the victim's side", v.Key, v.Prio, a.Key, a.Prio, rel, vleaf))
			}
		}
	}
	_ = ineligibleKinds
	// ---- C08: guarantees and effect ----
	// attempt precondition: a queue on the asker's path has guaranteed resources it is still under. Necessary
	// condition, independent of the order in which the core evaluates, judged on usage net of what is already being
	// preempted and of the announced victims below the queue. Certainly false only when it fails for every guaranteed
	// queue of the path.
	hasGuarantee, atOrAbove := false, true
	victimsFreeReachedType := false
	pathDetail := ""
	for _, q := range pathOf(pre, leaf) {
		if len(q.Guaranteed) == 0 {
			continue
		}
		hasGuarantee = true
		below := res.R{}
		for _, v := range victims {
			if va := pre.Apps[victimApp[v.Key]]; va != nil && isAncestorOrSelf(q.Path, va.Queue) {
				below.AddTo(v.Res)
			}
		}
		// "still under": certainly not when every type of the ask that this queue guarantees has been reached, even
		// with the victims below the queue gone. The ask itself is not added: the statement does not ask for the ask to
		// fit within the guarantee. A queue that guarantees none of the ask's types cannot be judged.
		judged, reached := 0, 0
		for t, need := range a.Res {
			if need <= 0 {
				continue
			}
			if g, ok := q.Guaranteed[t]; ok {
				judged++
				if q.Allocated[t]-q.Preempting[t]-below[t] >= g {
					reached++
					if below[t] > 0 {
						victimsFreeReachedType = true
					}
				}
			}
		}
		if judged == 0 || reached < judged {
			atOrAbove = false
		}
		pathDetail += fmt.Sprintf(" %s guaranteed %s allocated %s preempting %s victims below it %s;", q.Path, q.Guaranteed, q.Allocated, q.Preempting, below)
	}
	if !hasGuarantee {
		e.violate("C08", "preemption-without-guarantee", "", fmt.Sprintf("queue preemption for ask %s although no queue on the path of %s has guaranteed resources", a.Key, leaf))
	} else if atOrAbove {
		ctx := ""
		if !victimsFreeReachedType {
			// the announced victims free nothing of the guaranteed types that have been reached
			ctx = "/victims-free-other-types"
		}
		e.violate("C08", "asker-queue-not-under-guarantee", ctx, fmt.Sprintf("queue preemption for ask %s %s although every guaranteed queue on the path of %s has reached its guaranteed share in every type the ask needs even with the victims removed:%s", a.Key, a.Res, leaf, pathDetail))
	}
	// victim queues above guarantee
	byLeaf := map[string][]*world.Alloc{}
	for _, v := range victims {
		if va := pre.Apps[victimApp[v.Key]]; va != nil {
			byLeaf[va.Queue] = append(byLeaf[va.Queue], v)
		}
	}
	for vleaf, vs := range byLeaf {
		anyGuarantee, above := false, false
		for _, q := range pathOf(pre, vleaf) {
			if isAncestorOrSelf(q.Path, leaf) {
				continue // shared ancestors are the asker's side too
			}
			if len(q.Guaranteed) == 0 {
				continue
			}
			anyGuarantee = true
			// "at the moment each victim is taken": whichever victim of this leaf was taken last, the other victims of
			// the leaf had already been taken; the queue must still have been above its guaranteed share then. The
			// order is unknown, so the rule asks for the existence of such a last victim (necessary condition).
			total := res.R{}
			for _, v := range vs {
				total.AddTo(v.Res)
			}
			for t, need := range a.Res {
				if need <= 0 {
					continue
				}
				g, ok := q.Guaranteed[t]
				if !ok {
					if q.Allocated[t] > 0 {
						above = true // the type is not guaranteed on that side
					}
					continue
				}
				net := q.Allocated[t] - q.Preempting[t]
				for _, v := range vs {
					if net-(total[t]-v.Res[t]) > g {
						above = true
					}
				}
			}
		}
		if anyGuarantee && !above {
			e.violate("C08", "victim-queue-within-guarantee", "", fmt.Sprintf("%d victims taken from %s although every queue on that side is within its guaranteed share for the types the ask %s %s needs", len(vs), vleaf, a.Key, a.Res))
		}
		if anyGuarantee {
			e.obs("c08.victim_queues_with_guarantee", 1)
			if lq := pre.Queues[vleaf]; lq != nil && !lq.Preempting.IsZero() {
				e.obs("c08.victim_queues_with_victims_in_flight", 1)
			}
		}
	}
	// effect: a node was reserved for the ask and the victims on it plus its free space cover the ask
	var node string
	if pa := post.Apps[app.ID]; pa != nil {
		for _, r := range pa.Resvs {
			if r.Key == a.Key {
				node = r.Node
			}
		}
	}
	if node == "" {
		e.obs("c08.effect_undetermined", 1)
		return
	}
	n := pre.Nodes[node]
	if n == nil {
		return
	}
	used, occ := sumNode(n)
	free := res.Sub(res.Sub(n.Cap, used), occ)
	freed := free.Clone()
	for _, v := range victims {
		if v.Node == node {
			freed = res.Add(freed, v.Res)
		}
	}
	e.obs("c08.effect_checked", 1)
	if !a.Res.FitsIn(freed) {
		ctx := ""
		if free.HasNegative() {
			ctx = "/node-overcommitted"
		} else {
			// the announced victims reach the ask in one of its types but not in all of them
			tot := res.R{}
			for _, v := range victims {
				tot.AddTo(v.Res)
			}
			for t, amount := range a.Res {
				if amount > 0 && tot[t] >= amount {
					ctx = "/one-type-reached"
				}
			}
		}
		e.violate("C08", "preemption-without-effect", ctx, fmt.Sprintf("victims were announced for ask %s %s but the free space of the reserved node %s (%s) plus the victims on it (%s in total) does not cover the ask", a.Key, a.Res, node, free, freed))
	}
}

func (e *Engine) checkQuotaPreemption(st *Step, victims []*world.Alloc, victimApp map[string]string) {
	pre := st.Pre
	e.obs("c08.quota_batches", 1)
	if !e.quotaPreemptionEnabled {
		e.violate("C08", "quota-preemption-while-disabled", "", "quota-change preemption took victims although the partition does not enable it")
	}
	// queues that may have triggered: managed, above maximum, quota preemption start time set and (about) reached
	now := time.Now().UnixNano()
	trigger := map[string]bool{}
	for path, q := range pre.Queues {
		if !q.Managed || len(q.Max) == 0 || q.QuotaStart == 0 || q.QuotaStart > now {
			continue
		}
		for t, m := range q.Max {
			if q.Allocated[t] > m {
				trigger[path] = true
			}
		}
	}
	covering := map[string]bool{}
	for _, v := range victims {
		va := pre.Apps[victimApp[v.Key]]
		if va == nil {
			continue
		}
		n := 0
		for _, q := range pathOf(pre, va.Queue) {
			if trigger[q.Path] {
				n++
				covering[q.Path] = true
			}
		}
		if n == 0 {
			e.violate("C08", "quota-victim-without-trigger", "", fmt.Sprintf("quota preemption victim %s lives in %s: no managed queue on its path is above its maximum with an elapsed quota preemption delay", v.Key, va.Queue))
			continue
		}
		// never touches a queue at or below its guaranteed share (for the types the victim frees)
		if lq := pre.Queues[va.Queue]; lq != nil && len(lq.Guaranteed) > 0 {
			within := true
			for t, amount := range v.Res {
				if amount <= 0 {
					continue
				}
				g, ok := lq.Guaranteed[t]
				if !ok || lq.Allocated[t] > g {
					within = false
				}
			}
			if within {
				e.violate("C08", "quota-victim-queue-within-guarantee", "", fmt.Sprintf("quota preemption victim %s %s lives in %s which is within its guaranteed share %s (allocated %s)", v.Key, v.Res, va.Queue, lq.Guaranteed, lq.Allocated))
			}
		}
	}
	// the amount: one trigger queue serves a leaf per pass (a triggered queue excludes its descendants, and its
	// ancestors did not trigger). The release message names the leaf, not the trigger, so the trigger is not
	// observable: the rule is existential. Some managed queue on the leaf's path must exceed its maximum (net of what
	// is already preempting, before the step) by at least everything claimed below it, for the types it exceeds;
	// other types of a victim are incidental (a victim cannot be split).
	excess := func(q *world.Queue) res.R {
		x := res.R{}
		for t, m := range q.Max {
			if ex := q.Allocated[t] - q.Preempting[t] - m; ex > 0 {
				x[t] = ex
			}
		}
		return x
	}
	perLeaf := map[string]res.R{}
	for _, v := range victims {
		va := pre.Apps[victimApp[v.Key]]
		if va == nil {
			continue
		}
		if perLeaf[va.Queue] == nil {
			perLeaf[va.Queue] = res.R{}
		}
		perLeaf[va.Queue].AddTo(v.Res)
	}
	for leaf, c := range perLeaf {
		ok, any := false, false
		detail := ""
		for _, q := range pathOf(pre, leaf) {
			if !q.Managed {
				continue
			}
			x := excess(q)
			if len(x) == 0 {
				continue
			}
			any = true
			below := res.R{}
			for l, lc := range perLeaf {
				if strings.HasPrefix(l+".", q.Path+".") {
					below.AddTo(lc)
				}
			}
			w := true
			for t, ex := range x {
				if below[t] > ex {
					w = false
				}
			}
			if w {
				ok = true
			}
			detail += fmt.Sprintf(" %s exceeds by %s (claimed below it %s);", q.Path, x, below)
		}
		e.obs("c08.quota_claims_checked", 1)
		if any && !ok {
			e.violate("C08", "quota-preemption-claims-too-much", "", fmt.Sprintf("quota preemption in %s claims %s, more than the excess over maximum of every managed queue on its path:%s", leaf, c, detail))
		}
	}
}

// checkPreemptingBooks: preempting(q) equals the resources of the live allocations below q flagged preempted.
func (e *Engine) checkPreemptingBooks(st *Step) {
	w := st.Post
	exp := map[string]res.R{}
	for _, a := range w.Apps {
		for _, al := range a.Allocs {
			if !al.Preempted {
				continue
			}
			for _, q := range pathOf(w, a.Queue) {
				if exp[q.Path] == nil {
					exp[q.Path] = res.R{}
				}
				exp[q.Path].AddTo(al.Res)
			}
		}
	}
	for path, q := range w.Queues {
		want := exp[path]
		if want == nil {
			want = res.R{}
		}
		if !res.Equal(want, q.Preempting) {
			e.violate("C08", "preempting-books", "", fmt.Sprintf("queue %s tracks %s as preempting, live allocations flagged for preemption below it sum to %s", path, q.Preempting, want.Pruned()))
		}
	}
}

// scenarioPreemption: a directed prefix that fills the nodes with RM-bound allocations of mixed priority in several
// queues and then submits back-dated askers that may preempt.
func (e *Engine) scenarioPreemption(g *Gen, r *Rng) {
	// make sure there are applications in at least three leaves
	leaves := append([]string{}, g.M.Leaves...)
	for i := 0; i < 4 && i < len(leaves); i++ {
		g.appN++
		id := fmt.Sprintf("app%d", g.appN)
		g.apps[id] = &gApp{ID: id, Queue: leaves[i], User: r.Pick(g.M.Users)}
		e.Do(&Op{Kind: OpAddApp, App: id, Queue: leaves[i], User: g.apps[id].User, Groups: []string{r.Pick(g.M.Groups)}})
	}
	apps := g.liveApps()
	nodes := g.liveNodes()
	if len(apps) == 0 || len(nodes) == 0 {
		return
	}
	// directed: the askers live in leaves that have a guarantee on their path, the nodes are filled by the others
	guaranteedLeaf := func(leaf string) bool {
		for _, q := range pathOf(e.Cur, leaf) {
			if len(q.Guaranteed) > 0 {
				return true
			}
		}
		return false
	}
	var askApps, fillApps []string
	for _, a := range apps {
		wa := e.Cur.Apps[a]
		if wa == nil {
			continue
		}
		if guaranteedLeaf(wa.Queue) {
			askApps = append(askApps, a)
		}
	}
	askLeaf := ""
	if len(askApps) > 0 && r.Chance(850) {
		askLeaf = e.Cur.Apps[askApps[r.Intn(len(askApps))]].Queue
	}
	for _, a := range apps {
		if wa := e.Cur.Apps[a]; wa != nil && wa.Queue != askLeaf {
			fillApps = append(fillApps, a)
		}
	}
	if len(fillApps) == 0 {
		fillApps = apps
	}
	// fill every node to the brim with RM-bound allocations
	for _, n := range nodes {
		for i := 0; i < 12; i++ {
			cur := e.Cur.Nodes[n]
			if cur == nil {
				break
			}
			free := cur.Available
			if free["memory"] <= 0 && free["vcore"] <= 0 {
				break
			}
			rs := res.R{}
			if free["memory"] > 0 {
				rs["memory"] = int64(r.Range(1, 2))
			}
			if free["vcore"] > 0 && r.Chance(800) {
				rs["vcore"] = int64(r.Range(1, 2))
			}
			if len(rs) == 0 {
				break
			}
			app := fillApps[r.Intn(len(fillApps))]
			if r.Chance(100) {
				app = apps[r.Intn(len(apps))]
			}
			op := &Op{Kind: OpBound, App: app, Key: g.newKey(app), Node: n, Res: rs, Prio: g.shiftPrio(int32(r.Range(0, 3)))}
			if r.Chance(80) {
				op.ReqNode = n
			}
			if !e.Do(op) {
				return
			}
		}
	}
	// askers, one after the other, scheduling in between without confirming anything: the victims of the first batch
	// are still in flight when the second asker looks for victims
	for i, n := 0, r.Range(1, 3); i < n; i++ {
		app := apps[r.Intn(len(apps))]
		if askLeaf != "" && r.Chance(800) {
			var in []string
			for _, a := range apps {
				if wa := e.Cur.Apps[a]; wa != nil && wa.Queue == askLeaf {
					in = append(in, a)
				}
			}
			if len(in) > 0 {
				app = in[r.Intn(len(in))]
			}
		}
		op := &Op{Kind: OpAsk, App: app, Key: g.newKey(app), Res: res.R{"memory": int64(r.Range(1, 3)), "vcore": int64(r.Range(0, 2))}.Pruned(), Prio: g.shiftPrio(int32(r.Range(0, 4))),
			AgeSec: int64(r.Range(35, 120)), PreemptOther: r.Chance(900), PreemptSelf: true}
		if r.Chance(100) {
			op.ReqNode = nodes[r.Intn(len(nodes))]
		}
		if !e.Do(op) {
			return
		}
		e.Do(&Op{Kind: OpSched, N: r.Range(2, 4)})
	}
	e.Do(&Op{Kind: OpSched, N: 4})
}

// guaranteeTemplate is a small fixed-shape configuration with seeded numbers for the second-preemption scenario:
// root.p (optional max) with two leaves that both have guaranteed resources, plus one unrelated leaf.
func guaranteeTemplate(r *Rng) *CfgMeta {
	g1, g2 := r.Range(2, 5), r.Range(3, 7)
	q := func(name string, g int, props map[string]string) configs.QueueConfig {
		qc := configs.QueueConfig{Name: name, Properties: props}
		if g > 0 {
			qc.Resources.Guaranteed = map[string]string{"memory": strconv.Itoa(g), "vcore": strconv.Itoa(g) + "m"}
			if r.Chance(300) {
				delete(qc.Resources.Guaranteed, []string{"memory", "vcore"}[r.Intn(2)])
			}
		}
		return qc
	}
	delay := map[string]string{"preemption.delay": []string{"1s", "2s"}[r.Intn(2)]}
	parent := configs.QueueConfig{Name: "p", Parent: true, Queues: []configs.QueueConfig{q("l1", g1, nil), q("l2", g2, delay)}}
	if r.Chance(400) {
		m := g1 + g2 + r.Range(0, 4)
		parent.Resources.Max = map[string]string{"memory": strconv.Itoa(m), "vcore": strconv.Itoa(m) + "m"}
	}
	t := true
	part := configs.PartitionConfig{Name: "default", Queues: []configs.QueueConfig{{Name: "root", SubmitACL: "*", Parent: true, Queues: []configs.QueueConfig{parent, q("other", 0, nil)}}}}
	part.Preemption.Enabled = &t
	m := &CfgMeta{Users: []string{"u1", "u2"}, Groups: []string{"g1", "g2"}, Leaves: []string{"root.p.l1", "root.p.l2", "root.other"}, FifoLeaves: []string{"root.p.l1", "root.p.l2", "root.other"}}
	m.Conf = &configs.SchedulerConfig{Partitions: []configs.PartitionConfig{part}}
	b, err := yaml.Marshal(m.Conf)
	if err != nil {
		return nil
	}
	if _, err := configs.LoadSchedulerConfigFromByteArray(b); err != nil {
		return nil
	}
	m.YAML = string(b)
	return m
}

// scenarioSecondPreemption: one node filled to the brim by root.p.l1, a first asker in root.p.l2 whose victims stay
// in flight (nothing is confirmed), then a second asker: the victim queue's usage net of what is already being
// preempted is what counts for its guarantee.
func (e *Engine) scenarioSecondPreemption(g *Gen, r *Rng) {
	g.nodeN++
	node := fmt.Sprintf("n%d", g.nodeN)
	c := int64(r.Range(8, 12))
	if !e.Do(&Op{Kind: OpAddNode, Node: node, Res: map[string]int64{"memory": c, "vcore": c}}) {
		return
	}
	mk := func(leaf string) string {
		g.appN++
		id := fmt.Sprintf("app%d", g.appN)
		g.apps[id] = &gApp{ID: id, Queue: leaf, User: r.Pick(g.M.Users)}
		e.Do(&Op{Kind: OpAddApp, App: id, Queue: leaf, User: g.apps[id].User, Groups: []string{r.Pick(g.M.Groups)}})
		return id
	}
	v1, v2, a1, a2 := mk("root.p.l1"), mk("root.p.l1"), mk("root.p.l2"), mk("root.p.l2")
	for used := int64(0); used < c; {
		sz := int64(1)
		if r.Chance(200) && c-used >= 2 {
			sz = 2
		}
		app := []string{v1, v2}[r.Intn(2)]
		if !e.Do(&Op{Kind: OpBound, App: app, Key: g.newKey(app), Node: node, Res: res.R{"memory": sz, "vcore": sz}, Prio: g.shiftPrio(int32(r.Range(0, 1)))}) {
			return
		}
		used += sz
	}
	for i, n := 0, r.Range(2, 3); i < n && !e.stopNow(); i++ {
		app := []string{a1, a2}[r.Intn(2)]
		sz := int64(r.Range(1, 5))
		if !e.Do(&Op{Kind: OpAsk, App: app, Key: g.newKey(app), Res: res.R{"memory": sz, "vcore": sz}, Prio: g.shiftPrio(int32(r.Range(0, 2))), AgeSec: int64(r.Range(40, 90)), PreemptOther: true, PreemptSelf: true}) {
			return
		}
		e.Do(&Op{Kind: OpSched, N: 3})
		if r.Chance(200) && len(e.C.S.Confirms()) > 0 {
			e.Do(&Op{Kind: OpConfirm, Idx: 0})
		}
	}
}
