package det

import (
	"crypto/sha256"
	"encoding/hex"
	"fmt"
	"os"
	"strings"
	"time"

	"github.com/apache/yunikorn-core/pkg/scheduler/objects"

	"verifharness/shim"
	"verifharness/world"
)

// CaseResult is what a worker reports for one case.
type CaseResult struct {
	Prop         string           `json:"prop"`
	Seed         uint64           `json:"seed"`
	Hash         string           `json:"hash"`
	Steps        int              `json:"steps"`
	Nontrivial   bool             `json:"nontrivial"`
	Obs          map[string]int64 `json:"obs"`
	Violations   []Violation      `json:"violations,omitempty"`
	Inconclusive string           `json:"inconclusive,omitempty"`
	Sample       *Sample          `json:"sample,omitempty"`
	Replay       string           `json:"replay,omitempty"`
	States       []string         `json:"states,omitempty"`
}

type Sample struct {
	Seed   string   `json:"case_seed"`
	Config string   `json:"config"`
	Ops    []string `json:"ops"`
}

// ReplayFile is the witness written for a violating case.
type ReplayFile struct {
	Property   string       `json:"property"`
	Engine     string       `json:"engine"`
	CaseSeed   uint64       `json:"case_seed"`
	Config     string       `json:"config_yaml"`
	PredDeny   int          `json:"pred_deny_permille"`
	PredSeed   uint64       `json:"pred_seed"`
	Ops        []*Op        `json:"ops"`
	Violations []Violation  `json:"violations"`
	Trace      []string     `json:"trace_tail,omitempty"`
	Before     *world.World `json:"snapshot_before,omitempty"`
	After      *world.World `json:"snapshot_after,omitempty"`
}

func baseW() map[string]int {
	return map[string]int{
		OpAddNode: 30, OpAddNodeDr: 3, OpUpdNode: 15, OpDrain: 8, OpUndrain: 8, OpDecom: 8,
		OpAddApp: 40, OpRmApp: 12, OpAsk: 160, OpUpdAsk: 15, OpBound: 12, OpBindAsk: 8, OpEcho: 6, OpRelease: 50,
		OpForeign: 12, OpForeignUpd: 6, OpForeignRm: 8,
		OpConfirm: 60, OpDupConfirm: 8, OpDropConfirm: 4, OpReconfirm: 6,
		OpSched: 200, OpFirePH: 8, OpFireState: 10, OpCleanup: 6,
	}
}

func scale(w map[string]int, m map[string]int) map[string]int {
	for k, v := range m {
		w[k] = v
	}
	return w
}

// Profiles: the directed part of each property's generator.
func ProfileFor(prop string) *Profile {
	p := &Profile{Name: prop, W: baseW(), Gang: 200, Aged: 400, ReqNode: 60, PredDeny: 100, Steps: [2]int{60, 140}, MaxNodes: 3, MaxApps: 5,
		NodeCap: [2]int{4, 10}, AskSize: [2]int{1, 3}, Closing: true, SwapTouch: 30, Restart: 150,
		Cfg: CfgOpts{Limits: 300, MaxApps: 250, QueueMax: 500, Guaranteed: 200, Dynamic: true}}
	switch prop {
	case "C01":
		p.Gang = 400
		p.NodeCap = [2]int{2, 6}
		p.PredDeny = 200
		p.ReqNode = 120
		p.Aged = 600
		p.W = scale(p.W, map[string]int{OpUpdNode: 30, OpForeign: 25, OpForeignUpd: 12, OpBound: 20, OpDrain: 14, OpDecom: 12})
		p.Cfg.Limits, p.Cfg.MaxApps = 100, 100
	case "C02":
		p.Cfg.QueueMax, p.Cfg.TightMax, p.Cfg.Limits, p.Cfg.MaxApps = 900, true, 100, 100
		p.NodeCap = [2]int{6, 12}
		p.Reloads = true
		p.W = scale(p.W, map[string]int{OpReload: 10, OpBound: 25, OpUpdAsk: 25, OpBindAsk: 12})
	case "C03":
		// forced (shim-bound) allocations over a lowered maximum take the quota-preemption bookkeeping branch of
		// IncAllocatedResource: only reachable with the partition flag and a queue delay configured
		p.Cfg.QuotaPreemption = true
		p.Scenario = 250
		p.CrossSwap = 200
		p.Gang = 400
		p.W = scale(p.W, map[string]int{OpDecom: 16, OpRmApp: 25, OpRelease: 70, OpDupConfirm: 15, OpDropConfirm: 10, OpReconfirm: 12, OpFirePH: 14, OpUpdAsk: 25})
	case "C04":
		p.Gang = 400
		p.CrossSwap = 200
		p.W = scale(p.W, map[string]int{OpDupConfirm: 20, OpReconfirm: 15, OpDropConfirm: 8, OpRmApp: 25, OpDecom: 14, OpEcho: 12})
	case "C05":
		p.Cfg.Limits, p.Cfg.QueueMax = 900, 300
		p.Reloads = true
		p.Gang = 150
		p.W = scale(p.W, map[string]int{OpReload: 14, OpAddApp: 60, OpRmApp: 20})
		p.MaxApps = 7
	case "C06":
		p.Scenario = 300
		p.CrossSwap = 200
		p.Gang = 850
		p.W = scale(p.W, map[string]int{OpFirePH: 22, OpFireState: 14, OpDecom: 14, OpRelease: 60, OpDupConfirm: 14, OpReconfirm: 10, OpRmApp: 16, OpBound: 0, OpBindAsk: 0, OpUpdAsk: 0})
	case "C07", "C08":
		p.PreemptScenario = 800
		p.SecondPreempt = 250
		p.Gang = 60
		p.Aged = 800
		p.ReqNode = 100
		p.NodeCap = [2]int{4, 8}
		p.MaxApps = 7
		p.Reloads = true
		p.Cfg = CfgOpts{Limits: 60, MaxApps: 60, QueueMax: 500, Guaranteed: 800, Preemption: true, Priorities: prop == "C07", QuotaPreemption: true, Dynamic: false}
		p.W = scale(p.W, map[string]int{OpBound: 40, OpReload: 12, OpQuotaPre: 30, OpConfirm: 90, OpDrain: 3, OpDecom: 3, OpForeign: 4, OpUpdNode: 5, OpFirePH: 2, OpFireState: 4, OpRelease: 30})
	case "C09":
		p.Aged = 900
		p.ReqNode = 200
		p.NodeCap = [2]int{2, 5}
		p.MaxNodes = 4
		p.W = scale(p.W, map[string]int{OpDrain: 16, OpDecom: 16, OpUpdNode: 25, OpRmApp: 20, OpUpdAsk: 25})
		p.Cfg.Limits, p.Cfg.MaxApps = 100, 100
	case "C10":
		p.Scenario = 350
		p.Restart = 600
		p.Gang = 350
		p.W = scale(p.W, map[string]int{OpFireState: 40, OpFirePH: 16, OpRelease: 90, OpRmApp: 20, OpAddApp: 60})
		p.MaxApps = 7
	case "C11":
		p.Restart = 500
		p.Cfg.MaxApps = 900
		p.Gang = 400
		p.MaxApps = 9
		p.W = scale(p.W, map[string]int{OpAddApp: 90, OpRmApp: 25, OpFireState: 30, OpRelease: 80, OpFirePH: 14})
	case "C12":
		p.Cfg.QuotaPreemption = true
		p.Gang = 300
		p.Steps = [2]int{20, 90}
		p.Reloads = true
		p.W = scale(p.W, map[string]int{OpReload: 6, OpForeign: 20, OpBound: 16, OpDecom: 4, OpRmApp: 6, OpFirePH: 2, OpFireState: 4})
	case "C16":
		p.Reloads = true
		p.W = scale(p.W, map[string]int{OpReload: 40, OpCleanup: 20, OpAddApp: 60})
		p.Cfg.Limits = 500
		p.Cfg.MixedCase = 300
	}
	return p
}

// RunCase executes one seeded history for a property and returns the verdicts for all active oracles.
func RunCase(prop string, seed uint64, replayDir string, cmdLog *os.File) (res *CaseResult) {
	res = &CaseResult{Prop: prop, Seed: seed, Obs: map[string]int64{}}
	r := NewRng(seed)
	prof := ProfileFor(prop)
	m := GenConfig(NewRng(Mix(seed, 1)), prof.Cfg)
	// a quarter of the preemption cases use the fixed-shape guarantee template and the second-preemption scenario
	tmpl := false
	if prof.SecondPreempt > 0 && int(Mix(seed, 9)%1000) < prof.SecondPreempt {
		if tm := guaranteeTemplate(NewRng(Mix(seed, 1))); tm != nil {
			m, tmpl = tm, true
		}
	}
	if cmdLog != nil {
		fmt.Fprintf(cmdLog, "BEGIN %s %#x\n", prop, seed)
	}
	c, err := shim.Start("rm:1", m.YAML, true, nil)
	if err != nil {
		res.Inconclusive = "core did not start: " + err.Error()
		return res
	}
	defer c.Stop()
	objects.VerifSetTimings(0, -1, 24*time.Hour, 24*time.Hour)
	predSeed := Mix(seed, 2)
	deny := prof.PredDeny
	if r.Chance(300) {
		deny = 0
	}
	c.S.Pred = func(key, node string, allocate bool) bool {
		if deny == 0 {
			return true
		}
		h := sha256.Sum256([]byte(fmt.Sprintf("%d|%s|%s", predSeed, key, node)))
		return int(uint16(h[0])<<8|uint16(h[1]))%1000 >= deny
	}
	e := NewEngine(c, m.YAML)
	e.CheckProp = prop
	e.Cmd = cmdLog
	if !e.Init() {
		res.Inconclusive = e.Inconclusive
		return res
	}
	e.checkLimitsConfig(m, "init")
	g := NewGen(r, m, e, prof)
	if tmpl {
		e.scenarioSecondPreemption(g, r)
		e.obs("scenario.second_preemption", 1)
	}
	// prefix: nodes and applications
	for i, n := 0, r.Range(1, prof.MaxNodes); i < n && !tmpl; i++ {
		if op := g.make(OpAddNode); op != nil {
			e.Do(op)
		}
	}
	for i, n := 0, r.Range(1, 3); i < n; i++ {
		if op := g.make(OpAddApp); op != nil {
			e.Do(op)
		}
	}
	if prof.PreemptScenario > 0 && !tmpl && r.Chance(prof.PreemptScenario) {
		e.scenarioPreemption(g, r)
		e.obs("scenario.preemption", 1)
	}
	if prof.Scenario > 0 && r.Chance(prof.Scenario) {
		e.scenarioInterruptedSwap(g, r)
		e.obs("scenario.interrupted_swap", 1)
	}
	if prof.CrossSwap > 0 && r.Chance(prof.CrossSwap) {
		e.scenarioCrossNodeSwap(g, r)
		e.obs("scenario.cross_node_swap", 1)
	}
	steps := r.Range(prof.Steps[0], prof.Steps[1])
	for i := 0; i < steps && e.Inconclusive == "" && !e.stopNow(); i++ {
		op := g.Next()
		if op.Kind == OpReload {
			ok := e.Do(op)
			e.afterReload(g, ok)
			continue
		}
		e.Do(op)
	}
	if prof.Closing && e.Inconclusive == "" && !e.stopNow() {
		e.closing(g)
	}
	res.Steps = e.StepN
	res.Obs = e.Obs
	res.Inconclusive = e.Inconclusive
	res.Violations = e.Viol
	for s := range e.Hist.States {
		res.States = append(res.States, s)
	}
	h := sha256.New()
	h.Write([]byte(m.YAML))
	ops := make([]string, 0, len(e.Ops))
	for _, o := range e.Ops {
		s := o.String()
		ops = append(ops, s)
		h.Write([]byte(s))
		h.Write([]byte{0})
	}
	res.Hash = hex.EncodeToString(h.Sum(nil)[:12])
	res.Nontrivial = nontrivial(prop, e)
	res.Sample = &Sample{Seed: fmt.Sprintf("%#x", seed), Config: m.YAML, Ops: ops}
	if len(e.Viol) > 0 && replayDir != "" {
		rf := &ReplayFile{Property: prop, Engine: "det", CaseSeed: seed, Config: m.YAML, PredDeny: deny, PredSeed: predSeed, Ops: e.Ops, Violations: e.Viol}
		tr := c.S.TraceFrom(0)
		if len(tr) > 80 {
			tr = tr[len(tr)-80:]
		}
		for _, ev := range tr {
			rf.Trace = append(rf.Trace, ev.String())
		}
		res.Replay = writeReplay(replayDir, prop, seed, rf)
	}
	return res
}

// closing phase: deliver everything, remove everything, check that nothing leaks.
func (e *Engine) closing(g *Gen) {
	drain := func() {
		for i := 0; i < 200 && len(e.C.S.Confirms()) > 0 && e.Inconclusive == "" && !e.stopNow(); i++ {
			e.Do(&Op{Kind: OpConfirm, Idx: 0})
		}
	}
	drain()
	for _, id := range g.liveApps() {
		if !e.stopNow() {
			e.Do(&Op{Kind: OpRmApp, App: id})
		}
	}
	drain()
	for _, k := range g.foreignKeys() {
		if !e.stopNow() {
			e.Do(&Op{Kind: OpForeignRm, Key: k})
		}
	}
	for _, n := range g.liveNodes() {
		if !e.stopNow() {
			e.Do(&Op{Kind: OpDecom, Node: n})
		}
	}
	drain()
	if !e.stopNow() {
		e.Do(&Op{Kind: OpCleanup})
	}
	if e.Inconclusive != "" || e.stopNow() {
		return
	}
	e.obs("closing_phases", 1)
	w := e.Cur
	for path, q := range w.Queues {
		if !q.Allocated.IsZero() || !q.Pending.IsZero() || !q.Preempting.IsZero() {
			e.violate("C03", "leak-queue", "", fmt.Sprintf("after everything was removed queue %s still has allocated %s pending %s preempting %s", path, q.Allocated, q.Pending, q.Preempting))
		}
		if q.Running != 0 || len(q.Allocating) != 0 {
			e.violate("C11", "leak-running-apps", "", fmt.Sprintf("after everything was removed queue %s still reports running %d allocating %v", path, q.Running, q.Allocating))
		}
		for id, n := range q.ReservedApps {
			if n != 0 {
				e.violate("C09", "leak-queue-reservation", "", fmt.Sprintf("after everything was removed queue %s still counts %d reservations for %s", path, n, id))
			}
		}
	}
	for name, tr := range w.Users {
		for path, qt := range tr.Queues {
			if !qt.Usage.IsZero() {
				e.violate("C05", "leak-user-usage", "", fmt.Sprintf("after everything was removed user %s still has usage %s in %s", name, qt.Usage, path))
			}
			if len(qt.Running) != 0 {
				e.violate("C05", "leak-user-apps", "", fmt.Sprintf("after everything was removed user %s still has running applications %v in %s", name, qt.Running, path))
			}
		}
	}
	for name, tr := range w.Groups {
		for path, qt := range tr.Queues {
			if !qt.Usage.IsZero() {
				e.violate("C05", "leak-group-usage", "", fmt.Sprintf("after everything was removed group %s still has usage %s in %s", name, qt.Usage, path))
			}
		}
	}
	if len(w.Nodes) != 0 || len(w.Apps) != 0 {
		e.violate("C03", "leak-objects", "", fmt.Sprintf("after everything was removed %d nodes and %d applications are still registered", len(w.Nodes), len(w.Apps)))
	}
	if w.NResv != 0 {
		// the property only demands "never zero while a reservation exists": a counter that stays high is a diagnostic
		e.obs("diag.reservation_counter_nonzero_at_end", 1)
	}
	if w.NAllocs != 0 {
		e.obs("diag.alloc_counter_nonzero_at_end", 1)
	}
	if w.NPH != 0 {
		e.obs("diag.placeholder_counter_nonzero_at_end", 1)
	}
}

func nontrivial(prop string, e *Engine) bool {
	o := e.Obs
	switch prop {
	case "C01":
		return o["c01.bindings_on_half_full"] > 0 && o["c01.ledger_checks"] > 0
	case "C02":
		return o["c02.bindings_near_limit"] > 0
	case "C03":
		return o["closing_phases"] > 0 && (o["recv:released"] > 0 && o["c01.bindings"] > 0)
	case "C04":
		return o["recv:new"] > 0 && o["recv:released"] > 0
	case "C05":
		return o["c05.bindings_under_limit"] > 0
	case "C06":
		return o["c06.swaps_confirmed"] > 0 || o["c06.timeouts_fired"] > 0
	case "C09":
		return o["c09.reservations_created"] > 0
	case "C10":
		return len(e.Hist.States) >= 4
	case "C11":
		return o["c11.gated_first_allocations"] > 0
	case "C07":
		return o["c07.victims"] > 0
	case "C08":
		return o["c07.victims"] > 0 && (o["c08.effect_checked"] > 0 || o["c08.quota_batches"] > 0)
	case "C16":
		return o["c16.reloads_with_running_state"] > 0
	}
	return o["c01.bindings"] > 0
}

func writeReplay(dir, prop string, seed uint64, rf *ReplayFile) string {
	_ = os.MkdirAll(dir, 0o755)
	path := fmt.Sprintf("%s/%s-%x.json", strings.TrimRight(dir, "/"), prop, seed)
	b, err := jsonMarshalIndent(rf)
	if err != nil {
		return ""
	}
	if err := os.WriteFile(path, b, 0o644); err != nil {
		return ""
	}
	return path
}

// scenarioInterruptedSwap is a directed prefix: a gang application with 2-3 placeholders, one swap completed, one swap
// in flight, then a seeded permutation of the interruptions the properties name (release of the last real allocation,
// confirmation of the in-flight swap, completing timer, placeholder timer, late confirmations). The rest of the
// history is random as usual.
func (e *Engine) scenarioInterruptedSwap(g *Gen, r *Rng) {
	if len(g.M.FifoLeaves) == 0 {
		return
	}
	g.nodeN++
	big := fmt.Sprintf("n%d", g.nodeN)
	if !e.Do(&Op{Kind: OpAddNode, Node: big, Res: map[string]int64{"memory": 20, "vcore": 20}}) {
		return
	}
	g.appN++
	id := fmt.Sprintf("app%d", g.appN)
	count := r.Range(2, 3)
	unit := map[string]int64{"memory": 1, "vcore": 1}
	total := map[string]int64{"memory": int64(count), "vcore": int64(count)}
	style := []string{"Soft", "Hard"}[r.Intn(2)]
	ga := &gApp{ID: id, Queue: r.Pick(g.M.FifoLeaves), User: r.Pick(g.M.Users), Gang: true, Style: style, TGs: []*tgInfo{{Name: "tg1", Count: count, Res: unit, PHSent: count}}}
	g.apps[id] = ga
	if !e.Do(&Op{Kind: OpAddApp, App: id, Queue: ga.Queue, User: ga.User, PHAsk: total, GangStyle: style}) {
		return
	}
	for i := 0; i < count; i++ {
		e.Do(&Op{Kind: OpAsk, App: id, Key: g.newKey(id), Res: map[string]int64{"memory": 1, "vcore": 1}, Placeholder: true, TaskGroup: "tg1"})
	}
	e.Do(&Op{Kind: OpSched, N: count + 2})
	r0 := g.newKey(id)
	e.Do(&Op{Kind: OpAsk, App: id, Key: r0, Res: map[string]int64{"memory": 1, "vcore": 1}, TaskGroup: "tg1"})
	e.Do(&Op{Kind: OpSched, N: 2})
	for i := 0; i < 4 && len(e.C.S.Confirms()) > 0; i++ {
		e.Do(&Op{Kind: OpConfirm, Idx: 0})
	}
	r1 := g.newKey(id)
	e.Do(&Op{Kind: OpAsk, App: id, Key: r1, Res: map[string]int64{"memory": 1, "vcore": 1}, TaskGroup: "tg1"})
	e.Do(&Op{Kind: OpSched, N: 2})
	ga.TGs[0].RealSent = 2
	// interruptions in a seeded order, each used with probability 2/3
	acts := []func(){
		func() { e.Do(&Op{Kind: OpRelease, App: id, Key: r0}) },
		func() {
			if len(e.C.S.Confirms()) > 0 {
				e.Do(&Op{Kind: OpConfirm, Idx: 0})
			}
		},
		func() { e.Do(&Op{Kind: OpFireState, App: id}) },
		func() { e.Do(&Op{Kind: OpFirePH, App: id}) },
		func() {
			for i := 0; i < 6 && len(e.C.S.Confirms()) > 0 && !e.stopNow(); i++ {
				e.Do(&Op{Kind: OpConfirm, Idx: 0})
			}
		},
		func() { e.Do(&Op{Kind: OpSched, N: 2}) },
		func() { e.Do(&Op{Kind: OpFireState, App: id}) },
	}
	order := make([]int, len(acts))
	for i := range order {
		order[i] = i
	}
	for i := len(order) - 1; i > 0; i-- {
		j := r.Intn(i + 1)
		order[i], order[j] = order[j], order[i]
	}
	// the documented dangerous order first in half of the cases
	if r.Chance(500) {
		order = []int{0, 1, 2, 4, 6, 5, 3}
	}
	for _, i := range order {
		if e.stopNow() || e.Inconclusive != "" {
			return
		}
		if r.Chance(800) {
			acts[i]()
		}
	}
}

// scenarioCrossNodeSwap is a directed prefix: placeholders that only fit one node (they ask for a resource type only
// that node has), the shim's predicates reject that node for the real pods, and real asks that are smaller than the
// placeholder in one type arrive: the replacement has to go to another node with a placeholder that is larger than
// the real allocation. Then the
// confirmations, duplicates, releases and node events in a seeded order.
func (e *Engine) scenarioCrossNodeSwap(g *Gen, r *Rng) {
	if len(g.M.FifoLeaves) == 0 {
		return
	}
	g.nodeN++
	nA := fmt.Sprintf("n%d", g.nodeN)
	g.nodeN++
	nB := fmt.Sprintf("n%d", g.nodeN)
	if !e.Do(&Op{Kind: OpAddNode, Node: nA, Res: map[string]int64{"memory": 8, "vcore": 8, "gpu": 4}}) {
		return
	}
	if !e.Do(&Op{Kind: OpAddNode, Node: nB, Res: map[string]int64{"memory": 8, "vcore": 8}}) {
		return
	}
	g.appN++
	id := fmt.Sprintf("app%d", g.appN)
	count := r.Range(1, 3)
	ph := map[string]int64{"memory": 2, "vcore": 2, "gpu": 1}
	total := map[string]int64{"memory": int64(2 * count), "vcore": int64(2 * count), "gpu": int64(count)}
	style := []string{"Soft", "Hard"}[r.Intn(2)]
	ga := &gApp{ID: id, Queue: r.Pick(g.M.FifoLeaves), User: r.Pick(g.M.Users), Gang: true, Style: style, TGs: []*tgInfo{{Name: "tg1", Count: count, Res: ph, PHSent: count}}}
	g.apps[id] = ga
	if !e.Do(&Op{Kind: OpAddApp, App: id, Queue: ga.Queue, User: ga.User, PHAsk: total, GangStyle: style}) {
		return
	}
	for i := 0; i < count; i++ {
		e.Do(&Op{Kind: OpAsk, App: id, Key: g.newKey(id), Res: map[string]int64{"memory": 2, "vcore": 2, "gpu": 1}, Placeholder: true, TaskGroup: "tg1"})
	}
	e.Do(&Op{Kind: OpSched, N: count + 2})
	var reals []string
	for i := 0; i < count; i++ {
		k := g.newKey(id)
		reals = append(reals, k)
		// the shim's predicates reject the placeholders' node for the real pod: the replacement goes elsewhere
		e.Do(&Op{Kind: OpPredDeny, Key: k, Node: nA})
		size := []map[string]int64{{"memory": 1, "vcore": 2}, {"memory": 2, "vcore": 1}, {"memory": 2, "vcore": 2}, {"memory": 1, "vcore": 1}}[r.Intn(4)]
		e.Do(&Op{Kind: OpAsk, App: id, Key: k, Res: size, TaskGroup: "tg1"})
	}
	ga.TGs[0].RealSent = count
	e.Do(&Op{Kind: OpSched, N: count + 1})
	acts := []func(){
		func() {
			for i := 0; i < 6 && len(e.C.S.Confirms()) > 0 && !e.stopNow(); i++ {
				e.Do(&Op{Kind: OpConfirm, Idx: 0})
			}
		},
		func() {
			if r.Chance(300) {
				e.Do(&Op{Kind: OpDrain, Node: []string{nA, nB}[r.Intn(2)]})
			}
		},
		func() { e.Do(&Op{Kind: OpSched, N: 2}) },
		func() {
			if op := g.make(OpDupConfirm); op != nil {
				e.Do(op)
			}
		},
		func() {
			if r.Chance(300) {
				e.Do(&Op{Kind: OpRelease, App: id, Key: reals[r.Intn(len(reals))]})
			}
		},
		func() {
			if r.Chance(400) {
				e.Do(&Op{Kind: OpDecom, Node: []string{nA, nB}[r.Intn(2)]})
			}
		},
	}
	order := r.Perm(len(acts))
	switch {
	case r.Chance(350):
		order = []int{0, 3, 2, 1, 4, 5}
	case r.Chance(400):
		// a node of the swap goes away while the swap is still in flight, the confirmation comes late
		order = []int{5, 2, 0, 3, 1, 4}
	}
	for _, i := range order {
		if e.stopNow() || e.Inconclusive != "" {
			return
		}
		acts[i]()
	}
}
