package det

import "encoding/json"

func jsonMarshalIndent(v interface{}) ([]byte, error) { return json.MarshalIndent(v, "", " ") }

func jsonUnmarshal(b []byte, v interface{}) error { return json.Unmarshal(b, v) }
