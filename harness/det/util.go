package det

import "encoding/json"

func jsonMarshalIndent(v interface{}) ([]byte, error) { return json.MarshalIndent(v, "", " ") }
