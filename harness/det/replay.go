package det

import (
	"crypto/sha256"
	"encoding/json"
	"fmt"
	"os"
	"time"

	"github.com/apache/yunikorn-core/pkg/scheduler/objects"

	"verifharness/shim"
)

// ReplayPath re-executes the explicit operation list of a witness and prints what happens. Exit code 1 if any
// violation of the witness' property shows up again.
func ReplayPath(path string, verbose bool) int {
	// the core iterates over Go maps: the same operation list can take a different path. Retry a few times.
	rc := 0
	for attempt := 1; attempt <= 20; attempt++ {
		rc = replayOnce(path, verbose)
		if rc != 0 {
			return rc
		}
		fmt.Printf("attempt %d: no violation reproduced\n", attempt)
	}
	return rc
}

func replayOnce(path string, verbose bool) int {
	b, err := os.ReadFile(path)
	if err != nil {
		fmt.Println(err)
		return 2
	}
	var rf ReplayFile
	if err := json.Unmarshal(b, &rf); err != nil {
		fmt.Println(err)
		return 2
	}
	c, err := shim.Start("rm:1", rf.Config, true, nil)
	if err != nil {
		fmt.Println("core did not start:", err)
		return 2
	}
	defer c.Stop()
	objects.VerifSetTimings(0, -1, 24*time.Hour, 24*time.Hour)
	c.S.Pred = func(key, node string, allocate bool) bool {
		if rf.PredDeny == 0 {
			return true
		}
		h := sha256.Sum256([]byte(fmt.Sprintf("%d|%s|%s", rf.PredSeed, key, node)))
		return int(uint16(h[0])<<8|uint16(h[1]))%1000 >= rf.PredDeny
	}
	e := NewEngine(c, rf.Config)
	e.CheckProp = rf.Property
	if !e.Init() {
		fmt.Println("inconclusive:", e.Inconclusive)
		return 2
	}
	shown := 0
	for _, o := range rf.Ops {
		op := *o
		t0 := c.S.TraceLen()
		nv := len(e.Viol)
		e.Do(&op)
		if e.Inconclusive != "" {
			fmt.Println("inconclusive:", e.Inconclusive)
			return 2
		}
		if verbose {
			fmt.Printf("[%d] %s   (counters allocs=%d resv=%d ph=%d)\n", e.StepN, op.String(), e.Cur.NAllocs, e.Cur.NResv, e.Cur.NPH)
			for _, ev := range c.S.TraceFrom(t0) {
				fmt.Printf("      %s\n", ev.String())
			}
		}
		for _, v := range e.Viol[nv:] {
			fmt.Printf("  >>> %s step %d: %s\n", v.Signature, v.Step, v.Text)
			shown++
		}
		if e.stopNow() {
			break
		}
	}
	hit := 0
	for _, v := range e.Viol {
		if v.Prop == rf.Property {
			hit++
		}
	}
	fmt.Printf("replay done: %d steps, %d violations (%d of %s)\n", e.StepN, len(e.Viol), hit, rf.Property)
	if hit > 0 {
		fmt.Printf("VIOLATION property=%s replay=%s\n", rf.Property, path)
		return 1
	}
	return 0
}

func init() { _ = os.Getenv }
