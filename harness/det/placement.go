package det

import (
	"crypto/sha256"
	"encoding/hex"
	"fmt"
	"os"
	"regexp"
	"strings"
	"time"

	"go.yaml.in/yaml/v3"

	"github.com/apache/yunikorn-core/pkg/common/configs"
	"github.com/apache/yunikorn-core/pkg/scheduler/objects"
	siCommon "github.com/apache/yunikorn-scheduler-interface/lib/go/common"

	"verifharness/shim"
	"verifharness/world"
)

// ---- reference model of ACLs, filters and the rule chain (written from the documentation of the placement rules) ----

type refACL struct {
	all    bool
	users  map[string]bool
	groups map[string]bool
}

var aclUserRe = regexp.MustCompile(`^[_a-zA-Z][a-zA-Z0-9:#/_.@-]*[$]?$`)
var aclGroupRe = regexp.MustCompile(`^[_a-zA-Z][a-zA-Z0-9:_.-]*$`)

func parseACL(s string) refACL {
	a := refACL{users: map[string]bool{}, groups: map[string]bool{}}
	if s == "" {
		return a
	}
	if strings.TrimSpace(s) == "*" {
		a.all = true
		return a
	}
	f := strings.Split(s, " ")
	us := strings.Split(f[0], ",")
	if len(us) == 1 && us[0] == "*" {
		a.all = true
		return a
	}
	for _, u := range us {
		if u != "" && aclUserRe.MatchString(u) {
			a.users[u] = true
		}
	}
	if len(f) == 2 {
		gs := strings.Split(f[1], ",")
		if len(gs) == 1 && gs[0] == "*" {
			a.all = true
			a.users = map[string]bool{}
			return a
		}
		for _, g := range gs {
			if g != "" && aclGroupRe.MatchString(g) {
				a.groups[g] = true
			}
		}
	}
	return a
}

func (a refACL) allows(user string, groups []string) bool {
	if a.all || a.users[user] {
		return true
	}
	for _, g := range groups {
		if a.groups[g] {
			return true
		}
	}
	return false
}

// submitAllowed: submit or admin ACL of the queue or of an ancestor. Queues created dynamically have no ACL of their own.
func submitAllowed(cq map[string]*cfgQueue, path string, user string, groups []string) bool {
	for p := path; p != ""; {
		if strings.EqualFold(p, "root.@recovery@") {
			return false
		}
		if a, ok := liveACLs[p]; ok && aclWorld != nil && aclWorld.Queues[p] != nil && aclWorld.Queues[p].Managed {
			// a queue keeps the ACLs of the last configuration that defined it (a queue dropped by a reload is draining, not gone)
			if parseACL(a[0]).allows(user, groups) || parseACL(a[1]).allows(user, groups) {
				return true
			}
		}
		i := strings.LastIndex(p, ".")
		if i < 0 {
			break
		}
		p = p[:i]
	}
	return false
}

// liveACLs: submit and admin ACL string per queue path as last configured (one case at a time per worker process).
var liveACLs = map[string][2]string{}

// aclWorld: the pre-step world the ACLs are evaluated in (only managed queues that exist carry ACLs).
var aclWorld *world.World

func recordACLs(m *CfgMeta) {
	for p, q := range cfgQueues(m) {
		liveACLs[p] = [2]string{q.Conf.SubmitACL, q.Conf.AdminACL}
	}
}

var specialRe = regexp.MustCompile(`[\^$*+?()\[{}|]`)

// filterAllows mirrors the documented filter semantics: empty filter = allow everything (deny type: deny everything);
// a single entry with regexp characters is a regexp, otherwise names.
func filterAllows(f configs.Filter, user string, groups []string) (allowed bool, known bool) {
	allow := f.Type != "deny"
	if len(f.Users) == 0 && len(f.Groups) == 0 {
		return allow, true
	}
	match := func(list []string, re *regexp.Regexp, name string) bool {
		if re != nil {
			return re.MatchString(name)
		}
		for _, x := range list {
			if x == name {
				return true
			}
		}
		return false
	}
	var ure, gre *regexp.Regexp
	if len(f.Users) == 1 && specialRe.MatchString(f.Users[0]) {
		r, err := regexp.Compile(f.Users[0])
		if err != nil {
			return false, false
		}
		ure = r
	}
	if len(f.Groups) == 1 && specialRe.MatchString(f.Groups[0]) {
		r, err := regexp.Compile(f.Groups[0])
		if err != nil {
			return false, false
		}
		gre = r
	}
	if match(f.Users, ure, user) {
		return allow, true
	}
	for _, g := range groups {
		if match(f.Groups, gre, g) {
			return allow, true
		}
	}
	return !allow, true
}

var qNameRe = regexp.MustCompile(`^[a-zA-Z0-9_:#/@-]{1,64}$`)

func validParts(path string) bool {
	for _, p := range strings.Split(path, ".") {
		if !qNameRe.MatchString(p) {
			return false
		}
	}
	return true
}

type placeExpect struct {
	Known   bool   // the reference could evaluate the chain
	Queue   string // expected queue ("" = rejected)
	RuleIdx int
	Create  bool
	Why     string
}

// refPlace evaluates the rule chain on the pre-step world. Chains with parent rules, or inputs for which a rule
// raises an error, are not evaluated (Known=false): the documentation is silent on them.
func refPlace(rules []configs.PlacementRule, cq map[string]*cfgQueue, pre *world.World, op *Op) placeExpect {
	user, groups := op.User, effGroups(op)
	forced := strings.EqualFold(op.Tags[siCommon.AppTagCreateForce], "true")
	if len(rules) == 0 {
		rules = []configs.PlacementRule{{Name: "provided"}}
	}
	tryQueue := func(q string, create bool) (string, bool, bool) { // placed queue, decided, known
		lq := strings.ToLower(q)
		wq := pre.Queues[lq]
		if lq == "root.@recovery@" {
			// reserved for forced applications: for any other application the rule does not match
			if wq == nil && !create {
				return "", false, true
			}
			if forced {
				return lq, true, true
			}
			return "", false, true
		}
		if wq == nil {
			if !create {
				return "", false, true
			}
			// closest existing ancestor decides access; it must be a parent queue
			anc := lq
			for pre.Queues[anc] == nil {
				i := strings.LastIndex(anc, ".")
				if i < 0 {
					return "", false, false
				}
				anc = anc[:i]
			}
			if !submitAllowed(cq, anc, user, groups) {
				return "", false, true
			}
			if pre.Queues[anc].Leaf || pre.Queues[anc].State != "Active" {
				return "", false, false // queue creation fails: outcome (rejection) is decided elsewhere
			}
			return lq, true, true
		}
		if !wq.Leaf || wq.State == "Draining" {
			return "", false, true
		}
		if !submitAllowed(cq, lq, user, groups) {
			return "", false, true
		}
		return lq, true, true
	}
	for i, r := range rules {
		if r.Parent != nil {
			return placeExpect{Why: "parent rule"}
		}
		ok, known := filterAllows(r.Filter, user, groups)
		if !known {
			return placeExpect{Why: "filter"}
		}
		if !ok {
			continue
		}
		var q string
		switch strings.ToLower(r.Name) {
		case "provided":
			if op.Queue == "" {
				continue
			}
			if strings.HasPrefix(op.Queue, "root.") {
				if !validParts(op.Queue) {
					return placeExpect{Why: "rule error"}
				}
				q = op.Queue
			} else {
				n := strings.ReplaceAll(op.Queue, ".", "_dot_")
				if !qNameRe.MatchString(n) {
					return placeExpect{Why: "rule error"}
				}
				q = "root." + n
			}
		case "user":
			n := strings.ReplaceAll(user, ".", "_dot_")
			if !qNameRe.MatchString(n) {
				return placeExpect{Why: "rule error"}
			}
			q = "root." + n
		case "tag":
			v := ""
			for k, tv := range op.Tags {
				if strings.EqualFold(k, r.Value) {
					v = tv
				}
			}
			if v == "" {
				continue
			}
			if strings.HasPrefix(v, "root.") {
				if !validParts(v) {
					return placeExpect{Why: "rule error"}
				}
				q = v
			} else {
				n := strings.ReplaceAll(v, ".", "_dot_")
				if !qNameRe.MatchString(n) {
					return placeExpect{Why: "rule error"}
				}
				q = "root." + n
			}
		case "fixed":
			v := strings.ToLower(r.Value)
			if strings.HasPrefix(v, "root") {
				q = v
			} else {
				q = "root." + v
			}
		default:
			return placeExpect{Why: "unknown rule"}
		}
		placed, decided, known := tryQueue(q, r.Create)
		if !known {
			return placeExpect{Why: "creation / recovery corner"}
		}
		if decided {
			return placeExpect{Known: true, Queue: placed, RuleIdx: i, Create: r.Create}
		}
	}
	// after the configured rules: the recovery rule (forced applications only), then the default queue
	if forced {
		return placeExpect{Known: true, Queue: "root.@recovery@", RuleIdx: len(rules)}
	}
	placed, decided, known := tryQueue("root.default", false)
	if !known {
		return placeExpect{Why: "default queue corner"}
	}
	if decided {
		return placeExpect{Known: true, Queue: placed, RuleIdx: len(rules) + 1}
	}
	return placeExpect{Known: true, Queue: "", RuleIdx: -1}
}

// ---- generator ----

func genPlacementConfig(r *Rng) *CfgMeta {
	acls := []string{"*", "", "u1", "u1,u2", "u3 g1", " g2", "u2 g1,g2", ""}
	for attempt := 0; attempt < 20; attempt++ {
		m := &CfgMeta{Users: []string{"u1", "u2", "u3", "dot.user"}, Groups: []string{"g1", "g2"}}
		root := configs.QueueConfig{Name: "root", Parent: true, SubmitACL: []string{"*", "", "u1", " g1"}[r.Intn(4)], AdminACL: []string{"", "", "u3"}[r.Intn(3)]}
		names := []string{"a", "b", "default", "users", "u1", "ns"}
		n := r.Range(2, 5)
		for i := 0; i < n; i++ {
			q := configs.QueueConfig{Name: names[i], SubmitACL: acls[r.Intn(len(acls))], AdminACL: acls[r.Intn(len(acls))]}
			if r.Chance(400) {
				q.Parent = true
				for j := 0; j < r.Range(0, 2); j++ {
					q.Queues = append(q.Queues, configs.QueueConfig{Name: []string{"x", "u2", "team"}[j], SubmitACL: acls[r.Intn(len(acls))]})
					m.Leaves = append(m.Leaves, "root."+q.Name+"."+q.Queues[j].Name)
				}
				if r.Chance(600) {
					q.ChildTemplate = configs.ChildTemplate{MaxApplications: uint64(r.Range(0, 3))}
					if r.Chance(600) {
						q.ChildTemplate.Resources.Max = map[string]string{"memory": fmt.Sprint(r.Range(2, 9))}
					}
					if r.Chance(300) {
						q.ChildTemplate.Properties = map[string]string{"application.sort.policy": "fair"}
					}
				}
				m.DynParents = append(m.DynParents, "root."+q.Name)
			} else {
				m.Leaves = append(m.Leaves, "root."+q.Name)
			}
			root.Queues = append(root.Queues, q)
		}
		part := configs.PartitionConfig{Name: "default", Queues: []configs.QueueConfig{root}}
		nr := r.Range(0, 4)
		for i := 0; i < nr; i++ {
			rule := configs.PlacementRule{Name: []string{"provided", "user", "tag", "fixed", "fixed"}[r.Intn(5)], Create: r.Chance(500)}
			switch rule.Name {
			case "tag":
				rule.Value = []string{"namespace", "queue"}[r.Intn(2)]
			case "fixed":
				rule.Value = []string{"root.a", "b", "root.users.team", "root.ns.made", "default", "root.b.x", "a"}[r.Intn(7)]
			}
			if r.Chance(300) {
				rule.Filter = configs.Filter{Type: []string{"allow", "deny", ""}[r.Intn(3)]}
				switch r.Intn(4) {
				case 0:
					rule.Filter.Users = []string{"u1"}
				case 1:
					rule.Filter.Users = []string{"u1", "u2"}
				case 2:
					rule.Filter.Groups = []string{"g1"}
				default:
					rule.Filter.Users = []string{"u[12]"}
				}
			}
			if r.Chance(120) && rule.Name != "fixed" {
				rule.Parent = &configs.PlacementRule{Name: "fixed", Value: []string{"root.users", "ns", "root.a"}[r.Intn(3)], Create: r.Chance(500)}
			}
			part.PlacementRules = append(part.PlacementRules, rule)
		}
		m.Conf = &configs.SchedulerConfig{Partitions: []configs.PartitionConfig{part}}
		b, err := yaml.Marshal(m.Conf)
		if err != nil {
			continue
		}
		if _, err := configs.LoadSchedulerConfigFromByteArray(b); err != nil {
			continue
		}
		m.YAML = string(b)
		return m
	}
	return GenConfig(r, CfgOpts{Dynamic: true})
}

func (g *Gen) placementApp() *Op {
	r := g.R
	g.appN++
	op := &Op{Kind: OpAddApp, App: fmt.Sprintf("app%d", g.appN), User: r.Pick(g.M.Users)}
	// groups are always supplied: without groups the core resolves (and caches) them, which the shim cannot see
	switch r.Intn(4) {
	case 0:
		op.Groups = []string{"gy"}
	case 1:
		op.Groups = []string{"g1"}
	case 2:
		op.Groups = []string{"g2", "g1"}
	default:
		op.Groups = []string{"gx"}
	}
	queues := []string{"", "root.a", "root.b", "a", "root.default", "default", "root.users.new1", "root.ns.Made", "root.a.below", "root.A", "dotted.name", "root.bad name", "root.users.u2", "root.@recovery@", "root.nosuch.deep.leaf", "users"}
	queues = append(queues, g.M.Leaves...)
	op.Queue = queues[r.Intn(len(queues))]
	op.Tags = map[string]string{}
	if r.Chance(500) {
		op.Tags["namespace"] = []string{"ns1", "root.ns.made", "root.@recovery@", "Dev", "a", "root.a", "bad name"}[r.Intn(7)]
	}
	if r.Chance(200) {
		op.Tags["queue"] = []string{"root.b.x", "b", "root.users.t1"}[r.Intn(3)]
	}
	if r.Chance(120) {
		op.Tags[siCommon.AppTagCreateForce] = "true"
	}
	return op
}

// checkC17 judges one application submission.
func (e *Engine) checkC17(st *Step, m *CfgMeta) {
	op := st.Op
	pre, post := st.Pre, st.Post
	accepted, rejected := false, false
	reason := ""
	for _, ev := range st.Evs {
		if ev.Dir == "recv" && ev.App == op.App {
			if ev.Kind == "acceptedApp" {
				accepted = true
			}
			if ev.Kind == "rejectedApp" {
				rejected, reason = true, ev.Reason
			}
		}
	}
	if !accepted && !rejected {
		return // C04 reports missing answers
	}
	e.obs("c17.submissions", 1)
	aclWorld = pre
	cq := cfgQueues(m)
	rules := m.Conf.Partitions[0].PlacementRules
	forced := strings.EqualFold(op.Tags[siCommon.AppTagCreateForce], "true")
	exp := refPlace(rules, cq, pre, op)
	if exp.Known {
		e.obs("c17.reference_evaluated", 1)
	} else {
		e.obs("c17.reference_undetermined:"+exp.Why, 1)
	}
	if rejected {
		e.obs("c17.rejected", 1)
		if strings.TrimSpace(reason) == "" {
			e.violate("C17", "rejected-without-reason", "", fmt.Sprintf("application %s was rejected without a reason", op.App))
		}
		if _, live := post.Apps[op.App]; live {
			e.violate("C17", "rejected-app-left-trace", "", fmt.Sprintf("rejected application %s is live in the partition", op.App))
		}
		for path := range post.Queues {
			if _, existed := pre.Queues[path]; !existed {
				e.violate("C17", "rejected-app-created-queue", "", fmt.Sprintf("queue %s was created by the rejected application %s", path, op.App))
			}
		}
		if exp.Known && exp.Queue != "" {
			e.violate("C17", "rejected-although-rule-matches", fmt.Sprintf("/rule-%s", ruleName(rules, exp.RuleIdx)), fmt.Sprintf("application %s (user %s groups %v queue %q tags %v) was rejected (%s), the rule chain places it in %s", op.App, op.User, op.Groups, op.Queue, op.Tags, reason, exp.Queue))
		}
		return
	}
	e.obs("c17.accepted", 1)
	a := post.Apps[op.App]
	if a == nil {
		return
	}
	q := a.Queue
	pq := post.Queues[q]
	if pq == nil || !pq.Leaf {
		e.violate("C17", "placed-in-non-leaf", "", fmt.Sprintf("application %s was placed in %s which is not a leaf queue", op.App, q))
	}
	if strings.EqualFold(q, "root.@recovery@") {
		e.obs("c17.recovery_queue_used", 1)
		if !forced {
			e.violate("C17", "recovery-queue-without-force", fmt.Sprintf("/via-%s", recoverySource(op)), fmt.Sprintf("application %s without the force create tag was placed in the recovery queue (queue %q tags %v)", op.App, op.Queue, op.Tags))
		}
		return
	}
	if old := pre.Queues[q]; old != nil {
		if old.State == "Draining" {
			e.violate("C17", "placed-in-draining-queue", "", fmt.Sprintf("application %s was placed in %s which was draining", op.App, q))
		}
		if !submitAllowed(cq, q, op.User, effGroups(op)) {
			e.violate("C17", "placed-without-access", "/existing-queue", fmt.Sprintf("application %s of user %s groups %v was placed in %s: neither the submit nor the admin ACL of the queue or an ancestor admits the user", op.App, op.User, op.Groups, q))
		}
	} else {
		e.obs("c17.queues_created", 1)
		// created: some rule must have create enabled, name parts valid, parent not a leaf, ACL of the closest existing ancestor
		anyCreate := false
		for _, r := range rules {
			for x := &r; x != nil; x = x.Parent {
				if x.Create {
					anyCreate = true
				}
			}
		}
		if !anyCreate {
			e.violate("C17", "queue-created-without-create-rule", "", fmt.Sprintf("queue %s was created for application %s although no placement rule has create enabled", q, op.App))
		}
		if !validParts(q) {
			e.violate("C17", "created-queue-invalid-name", "", fmt.Sprintf("queue %s created for application %s has an invalid name part", q, op.App))
		}
		anc := q
		for pre.Queues[anc] == nil && strings.Contains(anc, ".") {
			anc = anc[:strings.LastIndex(anc, ".")]
		}
		if pa := pre.Queues[anc]; pa != nil && pa.Leaf {
			e.violate("C17", "queue-created-under-leaf", "", fmt.Sprintf("queue %s was created under %s which was a leaf", q, anc))
		}
		if !submitAllowed(cq, anc, op.User, effGroups(op)) {
			e.violate("C17", "placed-without-access", "/created-queue", fmt.Sprintf("queue %s was created for user %s groups %v although the closest existing ancestor %s does not admit the user", q, op.User, op.Groups, anc))
		}
		// child template of the parent (application tags may set quotas on the new queue: skipped then)
		if _, hasQuota := op.Tags[siCommon.AppTagNamespaceResourceQuota]; !hasQuota {
			parent := q[:strings.LastIndex(q, ".")]
			if c := cq[parent]; c != nil && pq != nil {
				t := c.Conf.ChildTemplate
				if t.MaxApplications != pq.MaxApps {
					e.violate("C17", "template-not-applied", "/maxapplications", fmt.Sprintf("created queue %s has max applications %d, the child template of %s says %d", q, pq.MaxApps, parent, t.MaxApplications))
				}
				tm := parseCfgRes(t.Resources.Max)
				if anyPositive(tm) && !sameResKeep(tm, pq.Max) {
					e.violate("C17", "template-not-applied", "/max", fmt.Sprintf("created queue %s has max %s, the child template of %s says %s", q, pq.Max, parent, tm))
				}
				for k, v := range t.Properties {
					if pq.Props[k] != v {
						e.violate("C17", "template-not-applied", "/property", fmt.Sprintf("created queue %s property %s is %q, the child template of %s says %q", q, k, pq.Props[k], parent, v))
					}
				}
				e.obs("c17.templates_checked", 1)
			}
		}
	}
	if exp.Known {
		if exp.Queue == "" {
			e.violate("C17", "accepted-although-no-rule-matches", "", fmt.Sprintf("application %s (user %s groups %v queue %q tags %v) was placed in %s, the rule chain matches nothing", op.App, op.User, op.Groups, op.Queue, op.Tags, q))
		} else if !strings.EqualFold(exp.Queue, q) {
			e.violate("C17", "placed-by-wrong-rule", fmt.Sprintf("/expected-rule-%s", ruleName(rules, exp.RuleIdx)), fmt.Sprintf("application %s (user %s groups %v queue %q tags %v) was placed in %s, the first matching rule gives %s", op.App, op.User, op.Groups, op.Queue, op.Tags, q, exp.Queue))
		}
	}
}

// effGroups: without a resolver a user without groups is a member of the group with its own name (documented default).
func effGroups(op *Op) []string {
	if len(op.Groups) == 0 {
		return []string{op.User}
	}
	return op.Groups
}

func recoverySource(op *Op) string {
	if strings.EqualFold(op.Queue, "root.@recovery@") {
		return "provided"
	}
	for _, v := range op.Tags {
		if strings.EqualFold(v, "root.@recovery@") {
			return "tag"
		}
	}
	return "other"
}

func ruleName(rules []configs.PlacementRule, i int) string {
	if i >= 0 && i < len(rules) {
		return strings.ToLower(rules[i].Name)
	}
	if i == len(rules) {
		return "recovery"
	}
	if i == len(rules)+1 {
		return "default-queue"
	}
	return "none"
}

// RunPlacementCase: one configuration, a short warm-up that creates dynamic queues and a draining queue, then
// application submissions judged one by one.
func RunPlacementCase(seed uint64, replayDir string, cmdLog *os.File) *CaseResult {
	out := &CaseResult{Prop: "C17", Seed: seed, Obs: map[string]int64{}}
	r := NewRng(seed)
	m := genPlacementConfig(NewRng(Mix(seed, 1)))
	c, err := shim.Start("rm:1", m.YAML, true, nil)
	if err != nil {
		out.Inconclusive = "core did not start: " + err.Error()
		return out
	}
	defer c.Stop()
	objects.VerifSetTimings(0, -1, 24*time.Hour, 24*time.Hour)
	e := NewEngine(c, m.YAML)
	e.CheckProp = "C17"
	e.Cmd = cmdLog
	if !e.Init() {
		out.Inconclusive = e.Inconclusive
		return out
	}
	prof := ProfileFor("C17")
	g := NewGen(r, m, e, prof)
	liveACLs = map[string][2]string{}
	recordACLs(m)
	n := r.Range(15, 40)
	for i := 0; i < n && e.Inconclusive == "" && !e.stopNow(); i++ {
		if i == n/2 && r.Chance(400) {
			// a reload with another placement configuration: queues that disappear become draining
			m2 := genPlacementConfig(NewRng(Mix(seed, uint64(100+i))))
			g.pendingMeta = m2
			e.Do(&Op{Kind: OpReload, Config: m2.YAML})
			e.afterReload(g, true)
			if g.M == m2 {
				recordACLs(m2)
			}
			continue
		}
		op := g.placementApp()
		if !e.Do(op) {
			break
		}
		e.checkC17(e.lastStep, g.M)
		if r.Chance(150) {
			e.Do(&Op{Kind: OpCleanup})
		}
	}
	out.Steps = e.StepN
	out.Obs = e.Obs
	out.Inconclusive = e.Inconclusive
	out.Violations = e.Viol
	h := sha256.New()
	h.Write([]byte(m.YAML))
	ops := make([]string, 0, len(e.Ops))
	for _, o := range e.Ops {
		s := o.String()
		ops = append(ops, s)
		h.Write([]byte(s))
	}
	out.Hash = hex.EncodeToString(h.Sum(nil)[:12])
	out.Nontrivial = e.Obs["c17.accepted"] > 0 && e.Obs["c17.rejected"] > 0
	out.Sample = &Sample{Seed: fmt.Sprintf("%#x", seed), Config: m.YAML, Ops: ops}
	if len(e.Viol) > 0 && replayDir != "" {
		rf := &ReplayFile{Property: "C17", Engine: "det", CaseSeed: seed, Config: m.YAML, Ops: e.Ops, Violations: e.Viol}
		out.Replay = writeReplay(replayDir, "C17", seed, rf)
	}
	return out
}

// ReplayPlacement re-runs a placement case from the seed stored in its witness.
func ReplayPlacement(path string) int {
	b, err := os.ReadFile(path)
	if err != nil {
		fmt.Println(err)
		return 2
	}
	var rf ReplayFile
	if err := jsonUnmarshal(b, &rf); err != nil {
		fmt.Println(err)
		return 2
	}
	res := RunPlacementCase(rf.CaseSeed, "", nil)
	hit := 0
	for _, v := range res.Violations {
		fmt.Printf("  >>> %s step %d: %s\n", v.Signature, v.Step, v.Text)
		if v.Prop == "C17" {
			hit++
		}
	}
	fmt.Printf("replay done: %d violations of C17\n", hit)
	if hit > 0 {
		fmt.Printf("VIOLATION property=C17 replay=%s\n", path)
		return 1
	}
	return 0
}

// ReplaySeeded re-runs a case of a seed-driven engine from the seed stored in its witness.
func ReplaySeeded(path string, prop string) int {
	b, err := os.ReadFile(path)
	if err != nil {
		fmt.Println(err)
		return 2
	}
	var rf ReplayFile
	if err := jsonUnmarshal(b, &rf); err != nil {
		fmt.Println(err)
		return 2
	}
	var res *CaseResult
	switch prop {
	case "C12":
		res = RunRecoveryCase(rf.CaseSeed, "", nil)
	default:
		return 2
	}
	hit := 0
	for _, v := range res.Violations {
		fmt.Printf("  >>> %s step %d: %s\n", v.Signature, v.Step, v.Text)
		if v.Prop == prop {
			hit++
		}
	}
	fmt.Printf("replay done: %d violations of %s\n", hit, prop)
	if hit > 0 {
		fmt.Printf("VIOLATION property=%s replay=%s\n", prop, path)
		return 1
	}
	return 0
}
