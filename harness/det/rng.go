package det

// Rng is a small deterministic PRNG (splitmix64). No global state, no time.
type Rng struct{ s uint64 }

func NewRng(seed uint64) *Rng { return &Rng{s: seed} }

func Mix(a, b uint64) uint64 {
	x := a ^ (b+0x9e3779b97f4a7c15)*0xbf58476d1ce4e5b9
	x ^= x >> 30
	x *= 0xbf58476d1ce4e5b9
	x ^= x >> 27
	x *= 0x94d049bb133111eb
	x ^= x >> 31
	return x
}

func (r *Rng) U64() uint64 {
	r.s += 0x9e3779b97f4a7c15
	x := r.s
	x = (x ^ (x >> 30)) * 0xbf58476d1ce4e5b9
	x = (x ^ (x >> 27)) * 0x94d049bb133111eb
	return x ^ (x >> 31)
}

func (r *Rng) Intn(n int) int {
	if n <= 0 {
		return 0
	}
	return int(r.U64() % uint64(n))
}

func (r *Rng) Range(lo, hi int) int { return lo + r.Intn(hi-lo+1) }

func (r *Rng) Chance(permille int) bool { return r.Intn(1000) < permille }

func (r *Rng) Pick(xs []string) string {
	if len(xs) == 0 {
		return ""
	}
	return xs[r.Intn(len(xs))]
}

// Weighted picks an index according to the weights.
func (r *Rng) Weighted(w []int) int {
	t := 0
	for _, x := range w {
		t += x
	}
	if t == 0 {
		return 0
	}
	n := r.Intn(t)
	for i, x := range w {
		if n < x {
			return i
		}
		n -= x
	}
	return len(w) - 1
}

// Perm returns a seeded permutation of 0..n-1.
func (r *Rng) Perm(n int) []int {
	o := make([]int, n)
	for i := range o {
		o[i] = i
	}
	for i := n - 1; i > 0; i-- {
		j := r.Intn(i + 1)
		o[i], o[j] = o[j], o[i]
	}
	return o
}
