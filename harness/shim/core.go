package shim

import (
	"fmt"
	"io"
	"os"
	"strconv"
	"sync"
	"sync/atomic"
	"time"

	"go.uber.org/zap"
	"go.uber.org/zap/zapcore"

	"github.com/apache/yunikorn-core/pkg/common/configs"
	"github.com/apache/yunikorn-core/pkg/entrypoint"
	"github.com/apache/yunikorn-core/pkg/events"
	ylog "github.com/apache/yunikorn-core/pkg/log"
	"github.com/apache/yunikorn-core/pkg/plugins"
	"github.com/apache/yunikorn-core/pkg/scheduler"
	"github.com/apache/yunikorn-core/pkg/scheduler/ugm"
	"github.com/apache/yunikorn-scheduler-interface/lib/go/api"
	siCommon "github.com/apache/yunikorn-scheduler-interface/lib/go/common"
	"github.com/apache/yunikorn-scheduler-interface/lib/go/si"

	"verifharness/res"
)

// Diagnostics counted from the log stream: never verdicts on their own.
var (
	DPanicLogs atomic.Int64
	BugLogs    atomic.Int64
	ErrorLogs  atomic.Int64
	logOnce    sync.Once
	LogSink    io.Writer // optional: where log lines at ERROR and above go
)

// InitLogger installs a production-mode logger like a real shim does. Without it the core's fallback
// logger is in development mode and DPanic logs panic the process.
func InitLogger() {
	logOnce.Do(func() {
		cfg := zap.NewProductionConfig()
		cfg.Level = zap.NewAtomicLevelAt(zapcore.ErrorLevel)
		if os.Getenv("VERIF_CORELOG") != "" {
			// debugging aid for triage: core log at info level on stderr
			cfg.Level = zap.NewAtomicLevelAt(zapcore.InfoLevel)
			LogSink = os.Stderr
		}
		enc := zapcore.NewJSONEncoder(cfg.EncoderConfig)
		var ws zapcore.WriteSyncer = zapcore.AddSync(io.Discard)
		if LogSink != nil {
			ws = zapcore.AddSync(LogSink)
		}
		core := zapcore.NewCore(enc, ws, cfg.Level)
		logger := zap.New(core, zap.Hooks(func(e zapcore.Entry) error {
			switch e.Level {
			case zapcore.DPanicLevel:
				DPanicLogs.Add(1)
			case zapcore.ErrorLevel:
				ErrorLogs.Add(1)
			}
			if len(e.Message) > 4 && e.Message[:4] == "BUG:" {
				BugLogs.Add(1)
			}
			return nil
		}))
		ylog.InitializeLogger(logger, &cfg)
	})
}

// Core is one running scheduler core plus the simulated shim attached to it.
type Core struct {
	S       *Shim
	Ctx     *entrypoint.ServiceContext
	Proxy   api.SchedulerAPI
	Sched   *scheduler.Scheduler
	Manual  bool
	Extra   map[string]string
	stopped bool
}

// ResetGlobals resets the process-global singletons of the core, as the project's own tests do.
func ResetGlobals() {
	events.Init()
	m := ugm.GetUserManager()
	m.ClearUserTrackers()
	m.ClearGroupTrackers()
	m.ClearConfigLimits()
	plugins.UnregisterSchedulerPlugins()
	configs.SetConfigMap(map[string]string{})
}

// Start starts a core (manual scheduling or with the real loops) and registers the simulated shim.
func Start(rmID string, config string, manual bool, extra map[string]string) (*Core, error) {
	InitLogger()
	ResetGlobals()
	c := &Core{S: New(rmID), Manual: manual}
	if manual {
		c.Ctx = entrypoint.StartAllServicesWithManualScheduler()
	} else {
		c.Ctx = entrypoint.StartAllServicesWithParams(false, false)
	}
	c.Proxy = c.Ctx.RMProxy
	c.Sched = c.Ctx.Scheduler
	ex := map[string]string{"log.level": "ERROR"}
	if os.Getenv("VERIF_CORELOG") != "" {
		ex["log.level"] = "INFO"
	}
	for k, v := range extra {
		ex[k] = v
	}
	c.Extra = ex
	_, err := c.Proxy.RegisterResourceManager(&si.RegisterResourceManagerRequest{
		RmID:        rmID,
		PolicyGroup: "queues",
		Version:     "0.0.2",
		BuildInfo:   map[string]string{"k": "v"},
		Config:      config,
		ExtraConfig: ex,
	}, c.S)
	if err != nil {
		c.Stop()
		return nil, err
	}
	return c, nil
}

func (c *Core) Stop() {
	if c.stopped {
		return
	}
	c.stopped = true
	c.Ctx.StopAll()
	plugins.UnregisterSchedulerPlugins()
}

func (c *Core) Partition() *scheduler.PartitionContext {
	return c.Sched.GetClusterContext().GetPartition(c.S.Partition)
}

// Barrier waits until everything sent before has been processed by the core and every message resulting from it
// has been delivered to the callback. Returns false if the watchdog fired (inconclusive, never a violation).
func (c *Core) Barrier(timeout time.Duration) bool {
	s := c.S
	s.appSent++
	s.nodeSent++
	id := SentinelPrefix + strconv.FormatInt(s.appSent, 10)
	_ = c.Proxy.UpdateApplication(&si.ApplicationRequest{RmID: s.RMID, New: []*si.AddApplicationRequest{{
		ApplicationID: id, QueueName: "root.nope", PartitionName: "nope",
		Ugi: &si.UserGroupInformation{User: "sentinel"},
	}}})
	_ = c.Proxy.UpdateNode(&si.NodeRequest{RmID: s.RMID, Nodes: []*si.NodeInfo{{
		NodeID: id, Action: si.NodeInfo_CREATE, Attributes: map[string]string{siCommon.NodePartition: "nope"},
		SchedulableResource: res.R{"memory": 1}.Proto(),
	}}})
	deadline := time.Now().Add(timeout)
	for s.appSeen.Load() < s.appSent || s.nodeSeen.Load() < s.nodeSent {
		remaining := time.Until(deadline)
		if remaining <= 0 {
			return false
		}
		select {
		case <-s.wake:
		case <-time.After(minDur(remaining, 50*time.Millisecond)):
		}
	}
	return true
}

func minDur(a, b time.Duration) time.Duration {
	if a < b {
		return a
	}
	return b
}

// ---- typed senders: every request is recorded in the trace before it is sent ----

type NodeSpec struct {
	ID     string
	Cap    res.R
	Action si.NodeInfo_ActionFromRM
	Attrs  map[string]string
}

func (c *Core) SendNode(n NodeSpec) error {
	kind := "node:" + n.Action.String()
	c.S.Record(&Ev{Dir: "send", Kind: kind, Node: n.ID, Res: n.Cap})
	attrs := map[string]string{}
	for k, v := range n.Attrs {
		attrs[k] = v
	}
	info := &si.NodeInfo{NodeID: n.ID, Action: n.Action, Attributes: attrs}
	if n.Cap != nil {
		info.SchedulableResource = n.Cap.Proto()
	}
	return c.Proxy.UpdateNode(&si.NodeRequest{RmID: c.S.RMID, Nodes: []*si.NodeInfo{info}})
}

type AppSpec struct {
	ID, Queue, User string
	Groups          []string
	Tags            map[string]string
	PlaceholderAsk  res.R
	GangStyle       string
	TimeoutMs       int64
	NoUgi           bool
}

func (c *Core) SendApp(a AppSpec) error {
	c.S.Record(&Ev{Dir: "send", Kind: "addApp", App: a.ID, Reason: a.Queue, State: a.User})
	req := &si.AddApplicationRequest{
		ApplicationID: a.ID, QueueName: a.Queue, PartitionName: "default",
		Tags: a.Tags, ExecutionTimeoutMilliSeconds: a.TimeoutMs, GangSchedulingStyle: a.GangStyle,
	}
	if !a.NoUgi {
		req.Ugi = &si.UserGroupInformation{User: a.User, Groups: a.Groups}
	}
	if a.PlaceholderAsk != nil {
		req.PlaceholderAsk = a.PlaceholderAsk.Proto()
	}
	return c.Proxy.UpdateApplication(&si.ApplicationRequest{RmID: c.S.RMID, New: []*si.AddApplicationRequest{req}})
}

func (c *Core) SendRemoveApp(id string) error {
	c.S.Record(&Ev{Dir: "send", Kind: "rmApp", App: id})
	return c.Proxy.UpdateApplication(&si.ApplicationRequest{RmID: c.S.RMID, Remove: []*si.RemoveApplicationRequest{{ApplicationID: id, PartitionName: "default"}}})
}

type AllocSpec struct {
	App, Key, Node string
	Res            res.R
	Prio           int32
	Tags           map[string]string
	TaskGroup      string
	Placeholder    bool
	Originator     bool
	PreemptOther   bool
	PreemptSelf    bool
	NoPolicy       bool
}

func (a AllocSpec) SI() *si.Allocation {
	al := &si.Allocation{
		AllocationKey: a.Key, ApplicationID: a.App, NodeID: a.Node, PartitionName: "default",
		Priority: a.Prio, AllocationTags: a.Tags, TaskGroupName: a.TaskGroup, Placeholder: a.Placeholder, Originator: a.Originator,
	}
	if a.Res != nil {
		al.ResourcePerAlloc = a.Res.Proto()
	}
	if !a.NoPolicy {
		al.PreemptionPolicy = &si.PreemptionPolicy{AllowPreemptOther: a.PreemptOther, AllowPreemptSelf: a.PreemptSelf}
	}
	return al
}

func (c *Core) SendAlloc(a AllocSpec) error {
	kind := "ask"
	if a.Node != "" {
		kind = "bound"
	}
	if _, ok := a.Tags[siCommon.Foreign]; ok {
		kind = "foreign"
	}
	c.S.Record(&Ev{Dir: "send", Kind: kind, App: a.App, Key: a.Key, Node: a.Node, Res: a.Res, Flag: a.Placeholder, TG: a.TaskGroup, Prio: a.Prio, ReqNode: a.Tags[siCommon.DomainYuniKorn+siCommon.KeyRequiredNode]})
	return c.Proxy.UpdateAllocation(&si.AllocationRequest{RmID: c.S.RMID, Allocations: []*si.Allocation{a.SI()}})
}

func (c *Core) SendRelease(app, key string, term si.TerminationType, confirm bool) error {
	kind := "release"
	if confirm {
		kind = "confirm"
	}
	c.S.Record(&Ev{Dir: "send", Kind: kind, App: app, Key: key, Term: term.String()})
	return c.Proxy.UpdateAllocation(&si.AllocationRequest{RmID: c.S.RMID, Releases: &si.AllocationReleasesRequest{
		AllocationsToRelease: []*si.AllocationRelease{{PartitionName: "default", ApplicationID: app, AllocationKey: key, TerminationType: term, Message: "shim"}},
	}})
}

func (c *Core) Reload(config string) error {
	c.S.Record(&Ev{Dir: "send", Kind: "reload"})
	err := c.Proxy.UpdateConfiguration(&si.UpdateConfigurationRequest{RmID: c.S.RMID, PolicyGroup: "queues", Config: config, ExtraConfig: c.Extra})
	r := ""
	if err != nil {
		r = err.Error()
	}
	c.S.Record(&Ev{Dir: "recv", Kind: "reloadResult", Flag: err == nil, Reason: r})
	return err
}

// Schedule runs one scheduling cycle through the hook (manual mode only).
func (c *Core) Schedule() bool {
	c.S.Record(&Ev{Dir: "act", Kind: "schedule"})
	return c.Sched.VerifScheduleOnce()
}

func CreationTag(ageSec int64) string {
	return fmt.Sprintf("%d", time.Now().Unix()-ageSec)
}

// Fence is a concurrency-safe barrier for the application/allocation channel only: it returns when everything the
// caller sent before has been processed. Used by concurrent clients to bound their backlog.
func (c *Core) Fence(id string, timeout time.Duration) bool {
	fid := SentinelPrefix + "f-" + id
	ch := c.S.NewFence(fid)
	_ = c.Proxy.UpdateApplication(&si.ApplicationRequest{RmID: c.S.RMID, New: []*si.AddApplicationRequest{{
		ApplicationID: fid, QueueName: "root.nope", PartitionName: "nope", Ugi: &si.UserGroupInformation{User: "sentinel"},
	}}})
	select {
	case <-ch:
		return true
	case <-time.After(timeout):
		return false
	}
}
