// Package shim is the shim simulator: it drives the real core through the real RMProxy, implements the
// ResourceManagerCallback (including the predicate plugin), and records one totally ordered trace of
// everything sent and received at the SI boundary.
package shim

import (
	"errors"
	"fmt"
	"strings"
	"sync"
	"sync/atomic"
	"time"

	"github.com/apache/yunikorn-scheduler-interface/lib/go/si"

	"verifharness/res"
)

// Ev is one trace event. Dir: "send" (shim -> core), "recv" (core -> shim), "act" (harness action).
type Ev struct {
	T       int64  `json:"t"`
	Dir     string `json:"dir"`
	Kind    string `json:"kind"`
	App     string `json:"app,omitempty"`
	Key     string `json:"key,omitempty"`
	Node    string `json:"node,omitempty"`
	Term    string `json:"term,omitempty"`
	State   string `json:"state,omitempty"`
	Reason  string `json:"reason,omitempty"`
	Res     res.R  `json:"res,omitempty"`
	Flag    bool   `json:"flag,omitempty"`
	TG      string `json:"tg,omitempty"`
	ReqNode string `json:"reqNode,omitempty"`
	Prio    int32  `json:"prio,omitempty"`
}

func (e *Ev) String() string {
	return fmt.Sprintf("%d %s %s app=%s key=%s node=%s term=%s state=%s flag=%v %s", e.T, e.Dir, e.Kind, e.App, e.Key, e.Node, e.Term, e.State, e.Flag, e.Reason)
}

const SentinelPrefix = "__sentinel-"

// Confirm is a release announced by the core that a real shim would answer with a confirmation.
type Confirm struct {
	App, Key string
	Term     si.TerminationType
	T        int64
}

// PredFunc decides the predicate answer; nil accepts everything. Must be a pure function.
type PredFunc func(key, node string, allocate bool) bool

type PredRec struct {
	T        int64
	Key      string
	Node     string
	Allocate bool
	OK       bool
}

type Shim struct {
	RMID            string
	Partition       string // normalised name
	mu              sync.Mutex
	clock           atomic.Int64
	trace           []*Ev
	confirms        []Confirm
	preds           []PredRec
	Pred            PredFunc
	PredDelay       func(key, node string) time.Duration // conc engine only
	appSent         int64
	nodeSent        int64
	appSeen         atomic.Int64
	nodeSeen        atomic.Int64
	wake            chan struct{}
	ContainerStates atomic.Int64
	EventsSeen      atomic.Int64
	fences          map[string]chan struct{}
	// OnRecv, if set, is called (outside the shim lock) for every received event: used by the conc engine.
	OnRecv func(e *Ev)
	// KeepPreds limits the predicate log (0 = unlimited)
	NoPredLog bool
}

func New(rmID string) *Shim {
	return &Shim{RMID: rmID, Partition: "[" + rmID + "]default", wake: make(chan struct{}, 1)}
}

func (s *Shim) now() int64 { return s.clock.Add(1) }

// Record appends an event to the trace and returns it.
func (s *Shim) Record(e *Ev) *Ev {
	s.mu.Lock()
	e.T = s.now()
	s.trace = append(s.trace, e)
	s.mu.Unlock()
	return e
}

func (s *Shim) recv(e *Ev) {
	s.Record(e)
	if s.OnRecv != nil {
		s.OnRecv(e)
	}
}

// TraceLen returns the current length of the trace.
func (s *Shim) TraceLen() int {
	s.mu.Lock()
	defer s.mu.Unlock()
	return len(s.trace)
}

// TraceFrom returns the events from index i on.
func (s *Shim) TraceFrom(i int) []*Ev {
	s.mu.Lock()
	defer s.mu.Unlock()
	out := make([]*Ev, len(s.trace)-i)
	copy(out, s.trace[i:])
	return out
}

func (s *Shim) PredsFrom(i int) []PredRec {
	s.mu.Lock()
	defer s.mu.Unlock()
	if i > len(s.preds) {
		return nil
	}
	out := make([]PredRec, len(s.preds)-i)
	copy(out, s.preds[i:])
	return out
}

func (s *Shim) PredLen() int {
	s.mu.Lock()
	defer s.mu.Unlock()
	return len(s.preds)
}

// TakeConfirms returns and clears the queued confirmations.
func (s *Shim) Confirms() []Confirm {
	s.mu.Lock()
	defer s.mu.Unlock()
	out := make([]Confirm, len(s.confirms))
	copy(out, s.confirms)
	return out
}

// RemoveConfirm removes the confirmation at index i of the queue.
func (s *Shim) RemoveConfirm(i int) {
	s.mu.Lock()
	defer s.mu.Unlock()
	if i < 0 || i >= len(s.confirms) {
		return
	}
	s.confirms = append(s.confirms[:i], s.confirms[i+1:]...)
}

// ---- ResourceManagerCallback ----

func (s *Shim) UpdateAllocation(response *si.AllocationResponse) error {
	for _, a := range response.New {
		s.recv(&Ev{Dir: "recv", Kind: "new", App: a.ApplicationID, Key: a.AllocationKey, Node: a.NodeID, Res: fromProto(a.ResourcePerAlloc), Flag: a.Placeholder})
	}
	for _, r := range response.Released {
		e := &Ev{Dir: "recv", Kind: "released", App: r.ApplicationID, Key: r.AllocationKey, Term: r.TerminationType.String(), Reason: r.Message}
		if r.TerminationType == si.TerminationType_TIMEOUT || r.TerminationType == si.TerminationType_PREEMPTED_BY_SCHEDULER || r.TerminationType == si.TerminationType_PLACEHOLDER_REPLACED {
			s.mu.Lock()
			s.confirms = append(s.confirms, Confirm{App: r.ApplicationID, Key: r.AllocationKey, Term: r.TerminationType, T: s.clock.Load()})
			s.mu.Unlock()
		}
		s.recv(e)
	}
	for _, r := range response.RejectedAllocations {
		s.recv(&Ev{Dir: "recv", Kind: "rejectedAlloc", App: r.ApplicationID, Key: r.AllocationKey, Reason: r.Reason})
	}
	return nil
}

func (s *Shim) UpdateApplication(response *si.ApplicationResponse) error {
	for _, a := range response.Accepted {
		s.recv(&Ev{Dir: "recv", Kind: "acceptedApp", App: a.ApplicationID})
	}
	for _, a := range response.Rejected {
		if strings.HasPrefix(a.ApplicationID, SentinelPrefix) {
			s.mu.Lock()
			ch, isFence := s.fences[a.ApplicationID]
			if isFence {
				delete(s.fences, a.ApplicationID)
			}
			s.mu.Unlock()
			if isFence {
				close(ch)
				continue
			}
			s.appSeen.Add(1)
			s.poke()
			continue
		}
		s.recv(&Ev{Dir: "recv", Kind: "rejectedApp", App: a.ApplicationID, Reason: a.Reason})
	}
	for _, a := range response.Updated {
		s.recv(&Ev{Dir: "recv", Kind: "updatedApp", App: a.ApplicationID, State: a.State, Reason: a.Message})
	}
	return nil
}

func (s *Shim) UpdateNode(response *si.NodeResponse) error {
	for _, n := range response.Accepted {
		s.recv(&Ev{Dir: "recv", Kind: "acceptedNode", Node: n.NodeID})
	}
	for _, n := range response.Rejected {
		if strings.HasPrefix(n.NodeID, SentinelPrefix) {
			s.nodeSeen.Add(1)
			s.poke()
			continue
		}
		s.recv(&Ev{Dir: "recv", Kind: "rejectedNode", Node: n.NodeID, Reason: n.Reason})
	}
	return nil
}

func (s *Shim) poke() {
	select {
	case s.wake <- struct{}{}:
	default:
	}
}

var errPredicate = errors.New("predicate denied")

func (s *Shim) Predicates(args *si.PredicatesArgs) error {
	ok := true
	if s.Pred != nil {
		ok = s.Pred(args.AllocationKey, args.NodeID, args.Allocate)
	}
	if !s.NoPredLog {
		s.mu.Lock()
		s.preds = append(s.preds, PredRec{T: s.now(), Key: args.AllocationKey, Node: args.NodeID, Allocate: args.Allocate, OK: ok})
		s.mu.Unlock()
	}
	if s.PredDelay != nil {
		if d := s.PredDelay(args.AllocationKey, args.NodeID); d > 0 {
			time.Sleep(d)
		}
	}
	if !ok {
		return errPredicate
	}
	return nil
}

func (s *Shim) PreemptionPredicates(args *si.PreemptionPredicatesArgs) *si.PreemptionPredicatesResponse {
	// a shim evaluates: does the ask fit on the node after removing victims [0..i] for the smallest i >= startIndex.
	// The simulator answers from its predicate function: if the (key,node) pair is acceptable the first index is enough.
	ok := true
	if s.Pred != nil {
		ok = s.Pred(args.AllocationKey, args.NodeID, true)
	}
	if !ok || len(args.PreemptAllocationKeys) == 0 {
		return &si.PreemptionPredicatesResponse{Success: false, Index: -1}
	}
	idx := args.StartIndex
	if idx < 0 {
		idx = 0
	}
	if int(idx) >= len(args.PreemptAllocationKeys) {
		idx = int32(len(args.PreemptAllocationKeys) - 1)
	}
	return &si.PreemptionPredicatesResponse{Success: true, Index: idx}
}

func (s *Shim) SendEvent(events []*si.EventRecord) {
	s.EventsSeen.Add(int64(len(events)))
}

func (s *Shim) UpdateContainerSchedulingState(request *si.UpdateContainerSchedulingStateRequest) {
	s.ContainerStates.Add(1)
}

func fromProto(r *si.Resource) res.R {
	out := res.R{}
	if r == nil {
		return out
	}
	for k, v := range r.Resources {
		if v != nil && v.Value != 0 {
			out[k] = v.Value
		}
	}
	return out
}

// NewFence registers a fence id; the returned channel is closed when the core's answer for it arrives.
func (s *Shim) NewFence(id string) chan struct{} {
	ch := make(chan struct{})
	s.mu.Lock()
	if s.fences == nil {
		s.fences = map[string]chan struct{}{}
	}
	s.fences[id] = ch
	s.mu.Unlock()
	return ch
}
