// Package res is the harness' own small sparse-vector type. It deliberately does not use the
// resources package of the code under test: the oracles must not inherit its defects.
package res

import (
	"fmt"
	"sort"
	"strings"

	"github.com/apache/yunikorn-core/pkg/common/resources"
	"github.com/apache/yunikorn-scheduler-interface/lib/go/si"
)

// R is a sparse resource vector. A missing key is zero unless a function says otherwise.
type R map[string]int64

func From(r *resources.Resource) R {
	out := R{}
	if r == nil {
		return out
	}
	for k, v := range r.Resources {
		if v != 0 {
			out[k] = int64(v)
		}
	}
	return out
}

// FromKeep keeps explicit zero values (needed for limits: "defined as zero" differs from "undefined").
func FromKeep(r *resources.Resource) R {
	if r == nil {
		return nil
	}
	out := R{}
	for k, v := range r.Resources {
		out[k] = int64(v)
	}
	return out
}

func FromDAO(m map[string]int64) R {
	out := R{}
	for k, v := range m {
		if v != 0 {
			out[k] = v
		}
	}
	return out
}

// FromDAOKeep keeps zero entries; nil stays nil.
func FromDAOKeep(m map[string]int64) R {
	if m == nil {
		return nil
	}
	out := R{}
	for k, v := range m {
		out[k] = v
	}
	return out
}

func (r R) Proto() *si.Resource {
	p := &si.Resource{Resources: map[string]*si.Quantity{}}
	for k, v := range r {
		p.Resources[k] = &si.Quantity{Value: v}
	}
	return p
}

func (r R) Core() *resources.Resource {
	m := map[string]resources.Quantity{}
	for k, v := range r {
		m[k] = resources.Quantity(v)
	}
	return resources.NewResourceFromMap(m)
}

func (r R) Clone() R {
	if r == nil {
		return nil
	}
	out := R{}
	for k, v := range r {
		out[k] = v
	}
	return out
}

func (r R) Pruned() R {
	out := R{}
	for k, v := range r {
		if v != 0 {
			out[k] = v
		}
	}
	return out
}

func Add(a, b R) R {
	out := R{}
	for k, v := range a {
		out[k] += v
	}
	for k, v := range b {
		out[k] += v
	}
	return out.Pruned()
}

func Sub(a, b R) R {
	out := R{}
	for k, v := range a {
		out[k] += v
	}
	for k, v := range b {
		out[k] -= v
	}
	return out.Pruned()
}

func (r R) AddTo(b R) {
	for k, v := range b {
		r[k] += v
	}
}

// Equal compares treating missing as zero.
func Equal(a, b R) bool {
	for k, v := range a {
		if b[k] != v {
			return false
		}
	}
	for k, v := range b {
		if a[k] != v {
			return false
		}
	}
	return true
}

func (r R) IsZero() bool {
	for _, v := range r {
		if v != 0 {
			return false
		}
	}
	return true
}

func (r R) HasNegative() bool {
	for _, v := range r {
		if v < 0 {
			return true
		}
	}
	return false
}

// FitsIn: every type requested by r (value > 0) must be available in avail (missing = 0).
func (r R) FitsIn(avail R) bool {
	for k, v := range r {
		if v > 0 && avail[k] < v {
			return false
		}
	}
	return true
}

// FitsInUndef: like FitsIn but a type missing from limit is unlimited. limit == nil is unlimited.
func (r R) FitsInUndef(limit R) bool {
	if limit == nil {
		return true
	}
	for k, v := range r {
		if v <= 0 {
			continue
		}
		if l, ok := limit[k]; ok && l < v {
			return false
		}
	}
	return true
}

// LessEq: component wise a <= b over the union of keys.
func LessEq(a, b R) bool {
	for k, v := range a {
		if v > b[k] {
			return false
		}
	}
	for k, v := range b {
		if a[k] > v {
			return false
		}
	}
	return true
}

func (r R) SharesType(o R) bool {
	for k, v := range r {
		if v > 0 && o[k] > 0 {
			return true
		}
	}
	return false
}

func (r R) String() string {
	if r == nil {
		return "nil"
	}
	keys := make([]string, 0, len(r))
	for k := range r {
		keys = append(keys, k)
	}
	sort.Strings(keys)
	parts := make([]string, 0, len(keys))
	for _, k := range keys {
		parts = append(parts, fmt.Sprintf("%s:%d", k, r[k]))
	}
	return "{" + strings.Join(parts, ",") + "}"
}
