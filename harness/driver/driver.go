// Package driver is the parent process of a check: it plans the PRNG-determined case list, runs worker processes,
// aggregates their results, classifies violations against known_findings.json and writes the evidence file.
package driver

import (
	"bufio"
	"encoding/json"
	"fmt"
	"os"
	"os/exec"
	"path/filepath"
	"sort"
	"strconv"
	"strings"
	"sync"
	"time"

	"verifharness/det"
)

// Runner executes one case in the worker process.
type Runner func(prop string, seed uint64, idx int, tier string, replayDir string, cmdLog *os.File) *det.CaseResult

// Spec describes one property check.
type Spec struct {
	Prop            string
	Run             Runner
	Quick           int // number of cases
	Thorough        int
	Batch           int  // cases per worker process
	Race            bool // worker needs the -race binary
	RaceThorough    bool
	Rule            string
	Assumptions     []string
	TimeoutPerBatch time.Duration
	Env             []string
	MaxProcs        int
}

var Specs = map[string]*Spec{}

func Register(s *Spec) { Specs[s.Prop] = s }

type Finding struct {
	Property  string `json:"property"`
	Signature string `json:"signature"`
	Status    string `json:"status"` // known | fixed
	Commit    string `json:"commit,omitempty"`
	WhatFails string `json:"what_fails"`
	Witness   string `json:"witness,omitempty"`
}

func verifDir() string {
	if d := os.Getenv("VERIF_DIR"); d != "" {
		return d
	}
	return "/verif"
}

func loadFindings() []Finding {
	var out struct {
		Findings []Finding `json:"findings"`
	}
	b, err := os.ReadFile(filepath.Join(verifDir(), "known_findings.json"))
	if err != nil {
		return nil
	}
	_ = json.Unmarshal(b, &out)
	return out.Findings
}

func propHash(p string) uint64 {
	var h uint64 = 1469598103934665603
	for _, c := range []byte(p) {
		h = (h ^ uint64(c)) * 1099511628211
	}
	return h
}

// CaseSeed derives the seed of case i.
func CaseSeed(verifSeed uint64, prop string, i int) uint64 {
	return det.Mix(det.Mix(verifSeed, propHash(prop)), uint64(i)+1)
}

// Worker runs the listed cases and writes one JSON line per case.
func Worker(prop, tier string, idxs []int, verifSeed uint64, out string, replayDir string, cmdLogPath string) int {
	spec := Specs[prop]
	if spec == nil {
		fmt.Fprintln(os.Stderr, "unknown property", prop)
		return 2
	}
	f, err := os.Create(out)
	if err != nil {
		fmt.Fprintln(os.Stderr, err)
		return 2
	}
	defer f.Close()
	var cmdLog *os.File
	if cmdLogPath != "" {
		cmdLog, _ = os.Create(cmdLogPath)
		defer cmdLog.Close()
	}
	w := bufio.NewWriter(f)
	for _, i := range idxs {
		seed := CaseSeed(verifSeed, prop, i)
		if cmdLog != nil {
			fmt.Fprintf(cmdLog, "CASE %d %#x\n", i, seed)
		}
		r := spec.Run(prop, seed, i, tier, replayDir, cmdLog)
		r.Seed = seed
		b, _ := json.Marshal(struct {
			Idx int `json:"idx"`
			*det.CaseResult
		}{i, r})
		w.Write(b)
		w.WriteByte('\n')
		w.Flush()
		if cmdLog != nil {
			fmt.Fprintf(cmdLog, "DONE %d\n", i)
		}
	}
	return 0
}

type caseLine struct {
	Idx int `json:"idx"`
	det.CaseResult
}

type batchResult struct {
	lines    []caseLine
	crashed  []int // case indexes that killed the worker
	crashLog map[int]string
	timedOut []int
}

func runBatch(bin string, spec *Spec, tier string, idxs []int, verifSeed uint64, workDir string, tag string, replayDir string) batchResult {
	out := filepath.Join(workDir, tag+".jsonl")
	cmdLog := filepath.Join(workDir, tag+".cmd")
	stderr := filepath.Join(workDir, tag+".err")
	strs := make([]string, len(idxs))
	for i, x := range idxs {
		strs[i] = strconv.Itoa(x)
	}
	to := spec.TimeoutPerBatch
	if to == 0 {
		to = 10 * time.Minute
	}
	args := []string{"-s", "QUIT", "-k", "10", fmt.Sprintf("%d", int(to.Seconds())), bin, "worker", "--prop", spec.Prop, "--tier", tier, "--idx", strings.Join(strs, ","),
		"--seed", strconv.FormatUint(verifSeed, 10), "--out", out, "--replays", replayDir, "--cmdlog", cmdLog}
	cmd := exec.Command("timeout", args...)
	ef, _ := os.Create(stderr)
	cmd.Stdout = ef
	cmd.Stderr = ef
	cmd.Env = append(os.Environ(), spec.Env...)
	raceLog := filepath.Join(workDir, tag+".race")
	cmd.Env = append(cmd.Env, "VERIF_RACE_LOG="+raceLog, "GORACE=halt_on_error=0 log_path="+raceLog)
	err := cmd.Run()
	ef.Close()
	res := batchResult{crashLog: map[int]string{}}
	done := map[int]bool{}
	if f, e := os.Open(out); e == nil {
		sc := bufio.NewScanner(f)
		sc.Buffer(make([]byte, 1<<20), 1<<28)
		for sc.Scan() {
			var cl caseLine
			if json.Unmarshal(sc.Bytes(), &cl) == nil {
				res.lines = append(res.lines, cl)
				done[cl.Idx] = true
			}
		}
		f.Close()
	}
	if err != nil {
		// the worker died or timed out: the first case not done is the culprit, the rest was not run
		var missing []int
		for _, i := range idxs {
			if !done[i] {
				missing = append(missing, i)
			}
		}
		if len(missing) > 0 {
			culprit := missing[0]
			code := -1
			if ee, ok := err.(*exec.ExitError); ok {
				code = ee.ExitCode()
			}
			b, _ := os.ReadFile(stderr)
			txt := string(b)
			if len(txt) > 200000 {
				txt = txt[:100000] + "\n...\n" + txt[len(txt)-100000:]
			}
			if code == 124 || code == 137 {
				res.timedOut = append(res.timedOut, culprit)
			} else {
				res.crashed = append(res.crashed, culprit)
			}
			res.crashLog[culprit] = txt
			if len(missing) > 1 {
				sub := runBatch(bin, spec, tier, missing[1:], verifSeed, workDir, tag+"r", replayDir)
				res.lines = append(res.lines, sub.lines...)
				res.crashed = append(res.crashed, sub.crashed...)
				res.timedOut = append(res.timedOut, sub.timedOut...)
				for k, v := range sub.crashLog {
					res.crashLog[k] = v
				}
			}
		}
	}
	return res
}

// CrashHandler lets an engine turn a worker crash into a verdict (C13: a crash is a violation).
var CrashHandler = map[string]func(prop string, idx int, seed uint64, stderr string, cmdLog string, replayDir string) *det.CaseResult{}

// Check is the parent entry point. Returns the process exit code.
func Check(prop, tier string, casesOverride int, jobs int) int {
	start := time.Now()
	spec := Specs[prop]
	if spec == nil {
		fmt.Println("unknown property", prop)
		return 2
	}
	verifSeed := uint64(1)
	if s := os.Getenv("VERIF_SEED"); s != "" {
		if v, err := strconv.ParseUint(s, 10, 64); err == nil {
			verifSeed = v
		}
	}
	n := spec.Quick
	if tier == "thorough" {
		n = spec.Thorough
	}
	if casesOverride > 0 {
		n = casesOverride
	}
	vd := verifDir()
	bin := filepath.Join(vd, ".build", "vrun")
	if spec.Race || (tier == "thorough" && spec.RaceThorough) {
		bin = filepath.Join(vd, ".build", "vrun-race")
	}
	workDir := filepath.Join(vd, ".build", "work", prop)
	_ = os.RemoveAll(workDir)
	_ = os.MkdirAll(workDir, 0o755)
	replayDir := filepath.Join(vd, "evidence", "replays")
	_ = os.MkdirAll(replayDir, 0o755)
	batch := spec.Batch
	if batch == 0 {
		batch = 25
	}
	if jobs <= 0 {
		jobs = 16
	}
	if spec.MaxProcs > 0 && jobs > spec.MaxProcs {
		jobs = spec.MaxProcs
	}
	// smaller batches when there are few cases, so that all cores are used
	if n/batch < jobs && n >= jobs {
		batch = (n + jobs - 1) / jobs
	}
	var batches [][]int
	for i := 0; i < n; i += batch {
		var b []int
		for j := i; j < i+batch && j < n; j++ {
			b = append(b, j)
		}
		batches = append(batches, b)
	}
	results := make([]batchResult, len(batches))
	var wg sync.WaitGroup
	sem := make(chan struct{}, jobs)
	for bi := range batches {
		wg.Add(1)
		sem <- struct{}{}
		go func(bi int) {
			defer wg.Done()
			defer func() { <-sem }()
			results[bi] = runBatch(bin, spec, tier, batches[bi], verifSeed, workDir, fmt.Sprintf("b%04d", bi), replayDir)
		}(bi)
	}
	wg.Wait()

	// aggregate
	findings := loadFindings()
	var knownList []Finding
	for _, f := range findings {
		if f.Status == "known" && f.Property == prop {
			knownList = append(knownList, f)
		}
	}
	matchKnown := func(sig string) (Finding, bool) {
		for _, f := range knownList {
			if globMatch(f.Signature, sig) {
				return f, true
			}
		}
		return Finding{}, false
	}
	knownOther := func(v det.Violation) bool {
		for _, f := range findings {
			if f.Status == "known" && f.Property == v.Prop && globMatch(f.Signature, v.Signature) {
				return true
			}
		}
		return false
	}
	tainted := 0
	obs := map[string]int64{}
	distinct := map[string]bool{}
	var samples []interface{}
	evaluations := 0
	inconclusive := 0
	inconcReasons := map[string]int{}
	type vrec struct {
		v      det.Violation
		replay string
		seed   uint64
	}
	bySig := map[string][]vrec{}
	otherProps := map[string]int{}
	states := map[string]bool{}
	var lines []caseLine
	for bi, br := range results {
		lines = append(lines, br.lines...)
		for _, idx := range br.crashed {
			seed := CaseSeed(verifSeed, prop, idx)
			if h := CrashHandler[prop]; h != nil {
				tag := fmt.Sprintf("b%04d", bi)
				cr := h(prop, idx, seed, br.crashLog[idx], filepath.Join(workDir, tag+".cmd"), replayDir)
				if cr != nil {
					lines = append(lines, caseLine{Idx: idx, CaseResult: *cr})
					continue
				}
			}
			// a crash of the worker outside C13 is inconclusive for this property (C13 owns "never panics"), unless the
			// core panicked inside one of the files the property is anchored in: then the mechanism the property is
			// about did not complete, on a history the property quantifies over
			p := filepath.Join(replayDir, fmt.Sprintf("%s-crash-%x.txt", prop, seed))
			_ = os.WriteFile(p, []byte(br.crashLog[idx]), 0o644)
			if fn, file, ok := anchoredPanic(prop, br.crashLog[idx]); ok {
				sig := fmt.Sprintf("%s/core-panic/%s@crash", prop, fn)
				lines = append(lines, caseLine{Idx: idx, CaseResult: det.CaseResult{Prop: prop, Seed: seed, Replay: p,
					Violations: []det.Violation{{Prop: prop, Rule: "core-panic", Signature: sig, Op: "crash",
						Text: "the core panicked in " + fn + " (" + file + "), a file this property is anchored in; re-run the case with: vrun debugcase " + prop + fmt.Sprintf(" %d %d", idx, idx+1)}}}})
				continue
			}
			lines = append(lines, caseLine{Idx: idx, CaseResult: det.CaseResult{Prop: prop, Seed: seed, Inconclusive: "worker process died (see " + p + ")"}})
		}
		for _, idx := range br.timedOut {
			seed := CaseSeed(verifSeed, prop, idx)
			p := filepath.Join(replayDir, fmt.Sprintf("%s-timeout-%x.txt", prop, seed))
			_ = os.WriteFile(p, []byte(br.crashLog[idx]), 0o644)
			lines = append(lines, caseLine{Idx: idx, CaseResult: det.CaseResult{Prop: prop, Seed: seed, Inconclusive: "watchdog: worker timed out (see " + p + ")"}})
		}
	}
	sort.Slice(lines, func(i, j int) bool { return lines[i].Idx < lines[j].Idx })
	for _, cl := range lines {
		evaluations++
		if cl.Inconclusive != "" {
			inconclusive++
			r := cl.Inconclusive
			if len(r) > 60 {
				r = r[:60]
			}
			inconcReasons[r]++
			fmt.Printf("INCONCLUSIVE property=%s case=%d seed=%#x reason=%s\n", prop, cl.Idx, cl.Seed, cl.Inconclusive)
		}
		for k, v := range cl.Obs {
			obs[k] += v
		}
		for _, s := range cl.States {
			states[s] = true
		}
		if cl.Nontrivial && cl.Inconclusive == "" && cl.Hash != "" {
			distinct[cl.Hash] = true
		}
		if cl.Sample != nil && len(samples) < 2 && cl.Nontrivial {
			s := *cl.Sample
			if len(s.Ops) > 60 {
				s.Ops = append(s.Ops[:60], fmt.Sprintf("... (%d more)", len(s.Ops)-60))
			}
			samples = append(samples, s)
		}
		if len(cl.Violations) > 0 && cl.Replay == "" {
			cl.Replay = writeCaseReplay(replayDir, prop, tier, cl)
		}
		// a known finding of another property corrupts the state: later violations of this property in the same case are tainted
		taintStep := -1
		for _, v := range cl.Violations {
			if v.Prop != prop && knownOther(v) && (taintStep < 0 || v.Step < taintStep) {
				taintStep = v.Step
			}
		}
		for _, v := range cl.Violations {
			if v.Prop != prop {
				otherProps[v.Prop]++
				continue
			}
			if taintStep >= 0 && v.Step > taintStep {
				tainted++
				continue
			}
			bySig[v.Signature] = append(bySig[v.Signature], vrec{v, cl.Replay, cl.Seed})
		}
	}
	if len(samples) == 0 {
		for _, cl := range lines {
			if cl.Sample != nil {
				samples = append(samples, *cl.Sample)
				break
			}
		}
	}
	violations := 0
	var knownHit []string
	sigs := make([]string, 0, len(bySig))
	for s := range bySig {
		sigs = append(sigs, s)
	}
	sort.Strings(sigs)
	exit := 0
	for _, s := range sigs {
		recs := bySig[s]
		if f, ok := matchKnown(s); ok {
			knownHit = append(knownHit, s)
			fmt.Printf("KNOWN-FINDING: property=%s %s (signature %s, %d occurrences, e.g. replay=%s)\n", prop, f.WhatFails, s, len(recs), recs[0].replay)
			continue
		}
		violations += len(recs)
		exit = 1
		fmt.Printf("VIOLATION property=%s replay=%s\n", prop, recs[0].replay)
		fmt.Printf("  signature=%s occurrences=%d step=%d op=%q\n  %s\n", s, len(recs), recs[0].v.Step, recs[0].v.Op, recs[0].v.Text)
	}
	wall := time.Since(start).Seconds()
	cov := map[string]interface{}{
		"evaluations":                         evaluations,
		"distinct_nontrivial":                 len(distinct),
		"rule":                                spec.Rule,
		"samples":                             samples,
		"observed":                            obs,
		"inconclusive":                        inconclusive,
		"inconclusive_reasons":                inconcReasons,
		"known_findings_hit":                  knownHit,
		"violation_signatures":                sigs,
		"violations_of_other_properties_seen": otherProps,
		"violations_discarded_as_tainted_by_known_finding_of_other_property": tainted,
		"diagnostics": map[string]interface{}{},
	}
	if len(states) > 0 {
		var ss []string
		for s := range states {
			ss = append(ss, s)
		}
		sort.Strings(ss)
		cov["application_states_visited"] = ss
	}
	ev := map[string]interface{}{
		"property_id": prop, "tier": tier, "seed": verifSeed, "level": "exploration", "coverage": cov,
		"assumptions": spec.Assumptions, "wall_s": wall, "violations": violations,
	}
	b, _ := json.MarshalIndent(ev, "", " ")
	_ = os.MkdirAll(filepath.Join(vd, "evidence"), 0o755)
	if err := os.WriteFile(filepath.Join(vd, "evidence", prop+".json"), b, 0o644); err != nil {
		fmt.Println("cannot write evidence:", err)
		return 2
	}
	fmt.Printf("%s %s: %d cases, %d distinct non-trivial, %d inconclusive, %d violations (%d signatures, %d known), %.1fs\n", prop, tier, evaluations, len(distinct), inconclusive, violations, len(sigs), len(knownHit), wall)
	if evaluations == 0 || len(distinct) < 2 {
		fmt.Printf("INCONCLUSIVE property=%s: the monitors observed too little (%d evaluations, %d distinct non-trivial)\n", prop, evaluations, len(distinct))
	}
	return exit
}

// Replay re-executes a recorded witness.
var Replayers = map[string]func(path string) int{}

func Replay(prop, path string) int {
	// a case replay (written by the driver for engines that re-run from the seed)
	if b, err := os.ReadFile(path); err == nil {
		var cr caseReplay
		if json.Unmarshal(b, &cr) == nil && cr.Engine == "seeded-case" {
			spec := Specs[cr.Property]
			if spec == nil {
				fmt.Println("unknown property", cr.Property)
				return 2
			}
			res := spec.Run(cr.Property, cr.CaseSeed, cr.Idx, cr.Tier, "", nil)
			hit := 0
			for _, v := range res.Violations {
				fmt.Printf("  >>> %s: %s\n", v.Signature, v.Text)
				if v.Prop == cr.Property {
					hit++
				}
			}
			fmt.Printf("replay done: %d violations\n", hit)
			if hit > 0 {
				fmt.Printf("VIOLATION property=%s replay=%s\n", cr.Property, path)
				return 1
			}
			return 0
		}
	}
	if r := Replayers[prop]; r != nil {
		return r(path)
	}
	if r := Replayers["*"]; r != nil {
		return r(path)
	}
	fmt.Println("no replayer for", prop)
	return 2
}

// globMatch: '*' in the pattern matches any (possibly empty) run of characters.
func globMatch(pat, s string) bool {
	if pat == "" {
		return s == ""
	}
	if pat[0] == '*' {
		for i := 0; i <= len(s); i++ {
			if globMatch(pat[1:], s[i:]) {
				return true
			}
		}
		return false
	}
	if s == "" || pat[0] != s[0] {
		return false
	}
	return globMatch(pat[1:], s[1:])
}

type caseReplay struct {
	Property   string          `json:"property"`
	Engine     string          `json:"engine"`
	CaseSeed   uint64          `json:"case_seed"`
	Idx        int             `json:"idx"`
	Tier       string          `json:"tier"`
	Violations []det.Violation `json:"violations"`
	Sample     *det.Sample     `json:"sample,omitempty"`
}

func writeCaseReplay(dir, prop, tier string, cl caseLine) string {
	cr := caseReplay{Property: prop, Engine: "seeded-case", CaseSeed: cl.Seed, Idx: cl.Idx, Tier: tier, Violations: cl.Violations, Sample: cl.Sample}
	if len(cr.Violations) > 20 {
		cr.Violations = cr.Violations[:20]
	}
	b, err := json.MarshalIndent(cr, "", " ")
	if err != nil {
		return ""
	}
	path := filepath.Join(dir, fmt.Sprintf("%s-%x.json", prop, cl.Seed))
	if os.WriteFile(path, b, 0o644) != nil {
		return ""
	}
	return path
}

// anchoredPanic reports whether the crash output holds a Go panic whose first core frame lies in a file listed in the
// anchors of the property (properties.jsonl). Returns the function and the file of that frame.
func anchoredPanic(prop, out string) (string, string, bool) {
	if !strings.Contains(out, "panic:") && !strings.Contains(out, "fatal error:") {
		return "", "", false
	}
	anchors := map[string]bool{}
	if f, err := os.Open(filepath.Join(verifDir(), "properties.jsonl")); err == nil {
		sc := bufio.NewScanner(f)
		sc.Buffer(make([]byte, 1<<20), 1<<24)
		for sc.Scan() {
			var pr struct {
				ID      string `json:"id"`
				Anchors struct {
					Files []string `json:"files"`
				} `json:"anchors"`
			}
			if json.Unmarshal(sc.Bytes(), &pr) == nil && pr.ID == prop {
				for _, a := range pr.Anchors.Files {
					anchors[a] = true
				}
			}
		}
		f.Close()
	}
	after := out
	if i := strings.Index(after, "[running]:"); i >= 0 {
		after = after[i:]
	}
	ls := strings.Split(after, "\n")
	for i, l := range ls {
		if !strings.HasPrefix(l, "github.com/apache/yunikorn-core/pkg/") || i+1 >= len(ls) {
			continue
		}
		fn := strings.TrimPrefix(l, "github.com/apache/yunikorn-core/")
		if k := strings.LastIndex(fn, "("); k > 0 {
			fn = fn[:k]
		}
		file := strings.TrimSpace(ls[i+1])
		if k := strings.Index(file, "/pkg/"); k >= 0 {
			file = file[k+1:]
		}
		if k := strings.LastIndex(file, ":"); k > 0 {
			file = file[:k]
		}
		return fn, file, anchors[file]
	}
	return "", "", false
}
